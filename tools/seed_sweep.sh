#!/bin/bash
# tools/seed_sweep.sh [ids...] -- for every seeded change: make sure patch.diff applies to /repo's HEAD (re-basing it in a
# scratch worktree if needed), apply it to /repo, run the property's quick check, undo it. Prints one line per seed.
cd /verif
IDS="$@"; [ -z "$IDS" ] && IDS=$(ls seeded)
if [ -n "$(git -C /repo status --porcelain)" ]; then echo "/repo not clean"; exit 3; fi
for ID in $IDS; do
  PROP="${ID%%-*}"; P=/verif/seeded/$ID/patch.diff
  if ! git -C /repo apply --check $P 2>/dev/null; then
    WT=/tmp/seedwt/rebase-$ID; rm -rf $WT; git -C /repo worktree prune; git -C /repo worktree add -q --detach $WT HEAD
    ( cd $WT && ( git apply --3way $P 2>/dev/null || { git reset -q --hard HEAD; patch -p1 -F3 --no-backup-if-mismatch < $P >/dev/null 2>&1; } ); git reset -q; find . -name "*.orig" -delete
      # a hunk that could not be placed leaves a .rej file or conflict markers: such a re-base is NOT the seeded change
      if [ -n "$(find . -name '*.rej')" ] || grep -rlq '^<<<<<<< ' commonroad 2>/dev/null; then : > /tmp/seedwt/$ID.rebased; else git diff > /tmp/seedwt/$ID.rebased; fi )
    git -C /repo worktree remove --force $WT
    if [ -s /tmp/seedwt/$ID.rebased ] && git -C /repo apply --check /tmp/seedwt/$ID.rebased 2>/dev/null; then
      [ -f seeded/$ID/patch.orig.diff ] || cp $P seeded/$ID/patch.orig.diff; cp /tmp/seedwt/$ID.rebased $P; echo "  ($ID: patch re-based onto /repo HEAD)"
    else echo "SEED $ID: patch does not apply to /repo HEAD (re-base it by hand)"; continue; fi
  fi
  git -C /repo apply $P
  OUT=$(VERIF_NO_EVIDENCE=1 ./check $PROP quick 2>&1); RC=$?
  git -C /repo checkout -- . ; git -C /repo clean -fdq commonroad 2>/dev/null
  KEYS=$(echo "$OUT" | grep -c "^VIOLATION")
  echo "SEED $ID: check_exit=$RC violations=$KEYS $(echo "$OUT" | grep -m1 'key=' | cut -c1-150)"
done
