#!/bin/bash
# tools/seed_verify.sh <Cxx> [srcdir]   -- confirm a seeded breaking change and try the quick check against it.
#  1. scratch worktree at /repo's HEAD: demo must pass
#  2. patch applied: demo must fail, pinned baseline must still pass
#  3. ./check <Cxx> quick with VERIF_REPO=<scratch worktree + patch>  (detected = exit 1)
# Results are printed; the caller stores patch/demo/meta under /verif/seeded/<id>/.
ID="$1"; PROP="${ID%%-*}"; SRC="${2:-/tmp/seed/$ID-out}"
WT=/tmp/seedwt/$ID
rm -rf "$WT"; mkdir -p /tmp/seedwt
git -C /repo worktree prune
git -C /repo worktree add -q --detach "$WT" HEAD || exit 3
cleanup() { git -C /repo worktree remove --force "$WT" 2>/dev/null; }
trap cleanup EXIT
cd "$WT"
PYTHONPATH="$WT" PYTHONDONTWRITEBYTECODE=1 /venv/bin/python "$SRC/demo.py" >/tmp/seedwt/$ID.demo0.log 2>&1; D0=$?
if ! git apply --3way "$SRC/patch.diff" 2>/tmp/seedwt/$ID.apply.log; then
  git reset -q --hard HEAD
  if ! patch -p1 -F3 --no-backup-if-mismatch < "$SRC/patch.diff" >/tmp/seedwt/$ID.apply.log 2>&1; then echo "RESULT $ID apply=FAILED"; cat /tmp/seedwt/$ID.apply.log; exit 3; fi
  find . -name "*.orig" -delete
  git diff > /tmp/seedwt/$ID.rebased.diff; echo "(patch rebased with fuzz onto current HEAD: /tmp/seedwt/$ID.rebased.diff)"
fi
git reset -q
PYTHONPATH="$WT" PYTHONDONTWRITEBYTECODE=1 /venv/bin/python "$SRC/demo.py" >/tmp/seedwt/$ID.demo1.log 2>&1; D1=$?
BL=$(/verif/tools/baseline.sh "$WT" 2>&1 | tail -1)
git -C "$WT" clean -fdxq -e commonroad 2>/dev/null
cd /verif
shift; shift
OUT=$(VERIF_REPO="$WT" VERIF_NO_EVIDENCE=1 ./check $PROP quick 2>&1); RC=$?
echo "RESULT $ID demo_clean_exit=$D0 demo_patched_exit=$D1 baseline='$BL' check_exit=$RC"
echo "$OUT" | grep -E "^(VIOLATION|  key|KNOWN|INCONCLUSIVE|C[0-9]+ )" | head -${SEED_LINES:-8}
