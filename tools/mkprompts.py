#!/usr/bin/env python3
"""tools/mkprompts.py <round> <prev-prompt-dir> <out-root>: prompts for the next round of seeded changes (one fresh sub-agent
per property). Takes the previous round's prompt of each property, moves it to the new scratch root and appends the change
of the latest stored seed to the 'already taken' list."""
import json, os, re, sys
rnd, prev, root = int(sys.argv[1]), sys.argv[2], sys.argv[3]
words = {5: "four", 6: "five", 7: "six", 8: "seven", 9: "eight", 10: "nine", 11: "ten", 12: "eleven", 13: "twelve", 14: "thirteen"}
suffix = "abcdefghijklmnop"[rnd - 2]   # suffix of the latest stored round
os.makedirs(os.path.join(root, "prompts"), exist_ok=True)
for i in range(1, 21):
    p = "C%02d" % i
    t = open(os.path.join(prev, p + ".txt")).read()
    old_root = re.search(r"git worktree (/tmp/\w+)/" + p, t).group(1)
    t = t.replace(old_root, root)
    t = t.replace("%s other engineers" % words[rnd - 1], "%s other engineers" % words[rnd])
    meta = json.load(open("/verif/seeded/%s-%s/meta.json" % (p, suffix)))
    last = "   already taken (%d): " % (rnd - 2)
    k = t.rfind(last)
    eol = t.find("\n", k)
    t = t[:eol + 1] + "   already taken (%d): %s\n" % (rnd - 1, meta["change"]) + t[eol + 1:]
    open(os.path.join(root, "prompts", p + ".txt"), "w").write(t)
print("written", root + "/prompts")
