#!/bin/bash
# tools/coverage.sh [tier] [props...] -- diagnostics: line coverage of /repo/commonroad reached by the checks' workloads.
# Output: /tmp/verif-cov/report.txt (per file) and the missing lines of the anchored files. Not part of any check.
TIER="${1:-quick}"; shift; PROPS="$@"; [ -z "$PROPS" ] && PROPS=$(seq -f "C%02g" 1 20)
D=/tmp/verif-cov; rm -rf $D; mkdir -p $D
cd /verif
for p in $PROPS; do VERIF_COVERAGE=$D VERIF_NO_EVIDENCE=1 ./check $p $TIER 2>&1 | tail -1; done
cd $D && /venv/bin/python -m coverage combine -q --data-file=$D/all $D/cov.* && /venv/bin/python -m coverage report --data-file=$D/all -m --omit "*/generated_scripts/*" > $D/report.txt
tail -3 $D/report.txt
