#!/usr/bin/env python3
"""tools/kf.py add <property> <status known|fixed> <key> <commit|-> <what>   -- append an entry to known_findings.json"""
import json, sys
p = "/verif/known_findings.json"
d = json.load(open(p))
_, cmd, prop, status, key, commit, what = sys.argv
e = {"property": prop, "status": status, "key": key, "what": ("fixed: property=%s %s %s" % (prop, commit, what)) if status == "fixed" else what}
if commit != "-":
    e["commit"] = commit
d["findings"] = [x for x in d["findings"] if not (x["property"] == prop and x["key"] == key)] + [e]
json.dump(d, open(p, "w"), indent=1)
open(p, "a").write("\n")
