#!/usr/bin/env python3
"""Regenerates /verif/MANIFEST.json from the check modules that exist (vf/checks/Cxx.py with CLAIM = True)."""
import json
import os
import re
import subprocess

V = os.path.dirname(os.path.dirname(os.path.abspath(__file__)))
T = {
    "C01": ("XML round-trip monitor: generated schema-expressible scenarios written with the real writer, re-read with "
            "the real reader, compared field by field against the generating objects with an independent structural "
            "comparator, at every precision 1..12",
            "runtime monitoring: round-trip oracle + structural comparator over generated and fixture scenarios"),
    "C02": ("protobuf round-trip monitor: as C01 with bit-identical comparison of reals and constructor-default objects",
            "runtime monitoring: round-trip oracle with bit-exact structural comparator"),
    "C03": ("every file written by the generated workload (incl. magnitude-stress values) is validated with lxml against "
            "the shipped XSD, scanned lexically for non-decimal number tokens and re-opened with the real reader",
            "runtime monitoring: XSD validation + lexical number scan of files produced by the real writer"),
    "C04": ("postcondition monitor on occupancy/state queries of all obstacle roles: the occupancy is recomputed from "
            "raw shape parameters and the state with own trigonometry; enclosure of uncertain states is tested on "
            "sampled admissible placements; scenario-level queries are compared with per-obstacle answers",
            "runtime monitoring: independent placement oracle on generated obstacles x time steps"),
    "C05": ("snapshot/postcondition monitor on translate_rotate of every class: every stored point/orientation is "
            "compared with an independently computed rigid motion, rigid invariants before/after, and the inverse motion "
            "must restore the snapshot",
            "runtime monitoring: pre/post snapshot contract with independent rigid-motion oracle"),
    "C06": ("postcondition monitor on spatial lookups: results are compared with a brute-force scan over raw lanelet "
            "vertices using exact rational geometry on a dyadic lattice (guard band off-lattice), for every "
            "construction route; shape containment vs exported geometry vs parameters are cross-checked",
            "runtime monitoring: brute-force exact-geometry oracle on lookup results"),
    "C07": ("invariant walker after every step of add/assign/remove histories: registries must be the inverse of the "
            "shape assignment and assignments must equal the geometric truth",
            "runtime monitoring: quiescent-point invariant check over operation histories"),
    "C08": ("postcondition monitor on GoalRegion.is_reached / PlanningProblem.goal_reached against an independent "
            "evaluation of the specification (exact on a dyadic lattice, banded elsewhere)",
            "runtime monitoring: reference-model oracle on generated goal regions x states"),
    "C09": ("operation histories on a scenario run in lock-step with an abstract id-pool model; after every call the "
            "observable ids, exceptions, generated ids and the hooked _id_set are compared with the model",
            "runtime monitoring: history + executable reference model (id pool) with hooked-state invariant"),
    "C10": ("reference walker after every removal / cut-out: every id-valued attribute must resolve; relations between "
            "survivors and untouched elements are compared with a pre-step snapshot",
            "runtime monitoring: quiescent-point reference walker + snapshot comparison over removal histories"),
    "C11": ("query -> mutate -> query histories; after every step each query is answered by the mutated object and by an "
            "object rebuilt through public constructors from the current primary data, answers must agree",
            "runtime monitoring: history + fresh-rebuild reference model"),
    "C12": ("for every class: reflexivity, deepcopy equality, symmetry, insertion-order independence, single-attribute "
            "perturbation inequality, hash totality and hash consistency are evaluated on generated instances",
            "runtime monitoring: algebraic-law oracle over generated instances and single-attribute variants"),
    "C13": ("print -> grammar regex -> parse -> compare -> print again over the product space of scenario-id fields; "
            "solution benchmark ids through the real writer and reader",
            "runtime monitoring: print/parse round-trip oracle with independent grammar"),
    "C14": ("solution write -> read round trip compared bit-exactly, plus lxml validation against the shipped solution "
            "XSD for schema-defined trajectory types",
            "runtime monitoring: round-trip oracle + XSD validation on generated solutions"),
    "C15": ("histories of writer constructions and writes; every produced file is compared byte-for-byte (date stamp "
            "normalised) with the output of a fresh isolated writer in a clean child process",
            "runtime monitoring: history + isolated-fresh-writer reference model over written bytes"),
    "C16": ("every public operation of Interval / AngleInterval is called on a lattice of endpoints and compared with exact "
            "rational set semantics (Interval) or an exists-k search with guard band (AngleInterval)",
            "runtime monitoring: exact set-semantics oracle on exhaustive lattice + random angles"),
    "C17": ("the real get_state_at_time_step is compared with a 5-line cycle automaton, exhaustively for small cycles "
            "and randomly for long ones, plus periodicity and light/cycle agreement",
            "runtime monitoring: reference automaton, exhaustive over a bounded cycle space"),
    "C18": ("deep structural snapshot and export bytes before/after each read-only operation in random operation "
            "sequences",
            "runtime monitoring: before/after snapshot comparison around each read-only operation"),
    "C19": ("draw+render wrapped for totality; patches collected by the renderer are converted back to rings and "
            "compared with the occupancy oracle; parameter propagation walked over the dataclass tree",
            "runtime monitoring: totality wrapper + drawn-patch oracle + propagation walker"),
    "C20": ("contracts on distance / interpolate_position / merge_lanelets with own arc-length walk; successor/"
            "predecessor enumeration checked for soundness on all small graphs, termination decided by a logical step "
            "budget failpoint",
            "runtime monitoring: postcondition oracle + step-budget failpoint on exhaustive small graphs"),
}
NOTE = ("exploration: holds on the executions produced (counts and feature classes in the evidence file); trusted base: "
        "CPython 3.12, numpy/shapely/lxml/protobuf/matplotlib wheels, the independent oracles under vf/oracle and the "
        "generators under vf/gen; geometric verdicts within 1e-9 of a boundary are skipped, not judged")


def main():
    checks, na = [], []
    for i in range(1, 21):
        pid = "C%02d" % i
        p = os.path.join(V, "vf", "checks", pid + ".py")
        claimed = os.path.exists(p) and re.search(r"^CLAIM\s*=\s*True", open(p).read(), re.M)
        if claimed:
            text, tech = T[pid]
            checks.append({
                "property_id": pid,
                "quick_cmd": "./check %s quick" % pid,
                "thorough_cmd": "./check %s thorough" % pid,
                "evidence_file": "evidence/%s.json" % pid,
                "replay_cmd_template": "./check %s --replay {path}" % pid,
                "engine": "vf",
                "level_claimed": {"category": "exploration", "text": text, "design_ref": "DESIGN.md section 3, " + pid},
                "level_note": NOTE,
                "technique": tech,
            })
        else:
            na.append({"property_id": pid, "reason": "check not built yet (work in progress); not claimed"})
    try:
        with open(os.path.join(V, "hooks_commits.txt")) as f:
            hooks = [l.split()[0] for l in f if l.strip() and not l.startswith("#")]
    except FileNotFoundError:
        hooks = []
    m = {
        "version": 1,
        "setup_cmd": "./setup.sh",
        "hooks": {
            "guard": "COMMONROAD_IO_VERIF",
            "enable": "the ./check wrapper exports COMMONROAD_IO_VERIF=1 and the harness (vf/) attaches monitors to the "
                      "classes of /repo at import time; python needs no build, the working tree of /repo is imported",
            "baseline_off_cmd": "cd /repo && env -u COMMONROAD_IO_VERIF /venv/bin/python -m pytest -ra -q -p "
                                "no:cacheprovider --timeout=900 --continue-on-collection-errors",
            "source_commits": hooks,
            "add_only": True,
        },
        "engines": [{"name": "vf", "path": "vf/", "serves_properties": [c["property_id"] for c in checks],
                     "kind_free_text": "python runtime-monitoring harness: seeded workload generators, independent "
                                       "oracles, contracts/recorders on the real classes, sharded runner with "
                                       "three-valued verdict"}],
        "checks": checks,
        "not_applicable": na,
        "notes": "All checks import /repo's working tree (VERIF_REPO overrides for scratch copies). Exit 0 held / 1 "
                 "violation / 2 inconclusive. Known findings: known_findings.json. Seeded breaking changes: seeded/.",
    }
    if not na:
        m["not_applicable"] = []
    with open(os.path.join(V, "MANIFEST.json"), "w") as f:
        json.dump(m, f, indent=1)
        f.write("\n")
    print("claimed:", [c["property_id"] for c in checks])


if __name__ == "__main__":
    main()
