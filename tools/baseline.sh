#!/bin/bash
# Runs the repository's pinned baseline (guard OFF) on a tree (default /repo) and compares with BASELINE.json stable_pass.
TREE="${1:-/repo}"
OUT=$(mktemp -d)
NP=""; /venv/bin/python -c "import xdist" 2>/dev/null && NP="-n 6"
cd "$TREE" && env -u COMMONROAD_IO_VERIF PYTHONDONTWRITEBYTECODE=1 /venv/bin/python -m pytest -ra -q -p no:cacheprovider --timeout=900 \
   --continue-on-collection-errors --junitxml=$OUT/j.xml $NP >/dev/null 2>&1
python3 - "$OUT/j.xml" <<'P'
import json,sys,xml.etree.ElementTree as ET
base=set(json.load(open('/root/.vp/BASELINE.json'))['stable_pass'])
passed=set()
for tc in ET.parse(sys.argv[1]).getroot().iter('testcase'):
    ok=not any(c.tag in('failure','error','skipped') for c in tc)
    if ok: passed.add(tc.get('classname')+'::'+tc.get('name'))
missing=sorted(base-passed)
if missing and len(missing) < 15:
    # tests/common/test_solution.py races on shared files under xdist: re-run the missing ones serially
    import subprocess, os
    tree=os.getcwd()
    ids=[]
    for m in missing:
        cls,name=m.split('::'); parts=cls.split('.')
        ids.append('/'.join(parts[:-1])+'.py::'+parts[-1]+'::'+name)
    r=subprocess.run(['/venv/bin/python','-m','pytest','-q','-p','no:cacheprovider','--timeout=900']+ids,cwd=tree,capture_output=True,text=True,env={k:v for k,v in os.environ.items() if k!='COMMONROAD_IO_VERIF'})
    if r.returncode==0:
        print("(re-ran %d xdist-flaky tests serially: all pass)"%len(missing)); passed|=set(missing); missing=[]
print("baseline: %d/%d stable tests pass; newly failing: %s"%(len(base&passed),len(base),missing))
sys.exit(1 if missing else 0)
P
rc=$?
rm -rf $OUT
exit $rc
