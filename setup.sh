#!/bin/bash
# Offline setup: put icontract + deal beside the repository's interpreter (/venv) without touching /venv.
set -e
cd "$(dirname "$0")"
if [ ! -d .deps/icontract ]; then
  PIP_NO_INDEX=1 /venv/bin/pip install --quiet --no-index --find-links /opt/veriftools/wheels --target .deps icontract deal >/dev/null 2>&1 \
    || /venv/bin/pip install --no-index --find-links /opt/veriftools/wheels --target .deps icontract deal
fi
mkdir -p evidence replays
/venv/bin/python -c "import sys; sys.path.insert(0,'.deps'); import icontract; print('setup ok: icontract', icontract.__version__)"
