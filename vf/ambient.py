"""Ambient workload: the repository's own tests, run on a scratch copy with the contracts installed (thorough tier)."""
import json
import os
import shutil
import subprocess
import sys


def run_ambient(ctx, monitors, tests=("tests",), prop=None):
    """Runs pytest on a scratch copy of the tree under test with the given monitor modules installed; merges what the
    contracts observed into ctx (counters 'ambient.*'; violations keep their keys)."""
    repo = os.environ.get("VERIF_REPO", "/repo")
    verif = os.path.dirname(os.path.dirname(os.path.abspath(__file__)))
    base = os.environ.get("VERIF_TMP") or "/tmp"
    scratch = os.path.join(base, "ambient_%d" % os.getpid())
    shutil.rmtree(scratch, ignore_errors=True)
    shutil.copytree(repo, scratch, ignore=shutil.ignore_patterns(".git", "__pycache__", ".pytest_cache", "doc", "tutorials"))
    out = os.path.join(base, "ambient_%d.json" % os.getpid())
    env = dict(os.environ)
    env.update({"PYTHONPATH": os.pathsep.join([scratch, verif, os.path.join(verif, ".deps")]),
                "VERIF_AMBIENT_MONITORS": ",".join(monitors), "VERIF_AMBIENT_OUT": out, "COMMONROAD_IO_VERIF": "1",
                "PYTHONDONTWRITEBYTECODE": "1", "MPLBACKEND": "Agg"})
    try:
        r = subprocess.run([sys.executable, "-m", "pytest", "-q", "--timeout=900", "-p", "no:cacheprovider", "-p",
                            "vf.pytest_monitors", "--continue-on-collection-errors", "-W", "ignore"] + list(tests),
                           cwd=scratch, env=env, capture_output=True, text=True, timeout=1500)
        ctx.note("ambient_pytest_tail", (r.stdout or "")[-300:])
        if not os.path.exists(out):
            ctx.counter("ambient.no-result")
            return
        with open(out) as f:
            res = json.load(f)
        for k, v in res["counters"].items():
            ctx.counter("ambient." + k, v)
        ctx.skipped(0)
        for k, v in res["violations"].items():
            for _ in range(1):
                ctx.violation(k, "[ambient pytest workload, test %s] %s" % (v.get("test"), v["msg"]),
                              {"ambient_test": v.get("test"), "count": v["count"]})
    except subprocess.TimeoutExpired:
        ctx.counter("ambient.timeout")
    finally:
        shutil.rmtree(scratch, ignore_errors=True)
        if os.path.exists(out):
            os.remove(out)
