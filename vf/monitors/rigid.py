"""C05 monitors: snapshot + postcondition on every translate_rotate; the expected image is computed independently."""
import os
import re

from vf import monitors as M
from vf.oracle import spatial

CLASSES = [
    ("commonroad.geometry.shape", ["Rectangle", "Circle", "Polygon", "ShapeGroup"]),
    ("commonroad.scenario.state", ["State"]),
    ("commonroad.scenario.trajectory", ["Trajectory"]),
    ("commonroad.prediction.prediction", ["Occupancy", "SetBasedPrediction", "TrajectoryPrediction"]),
    ("commonroad.scenario.obstacle", ["StaticObstacle", "DynamicObstacle", "PhantomObstacle", "EnvironmentObstacle"]),
    ("commonroad.common.common_lanelet", ["StopLine"]),
    ("commonroad.scenario.lanelet", ["Lanelet", "LaneletNetwork"]),
    ("commonroad.scenario.traffic_sign", ["TrafficSign"]),
    ("commonroad.scenario.traffic_light", ["TrafficLight"]),
    ("commonroad.scenario.scenario", ["Scenario"]),
    ("commonroad.planning.goal", ["GoalRegion"]),
    ("commonroad.planning.planning_problem", ["PlanningProblem", "PlanningProblemSet"]),
]


def angle_class(a):
    a = float(a)
    if a == 0:
        return "zero-angle"
    return "small-angle(|a|<=0.05)" if abs(a) <= 0.05 else "general-angle"


def generalise(path):
    return re.sub(r"\[\-?\d+\]", "[]", path)


class _Items(list):
    """the extraction, plus containment probes for shapes (points with the verdict the shape gave BEFORE the motion)"""
    probes = ()


def _probes(shape):
    import numpy as np
    n = type(shape).__name__
    if n not in ("Rectangle", "Circle", "Polygon"):
        return ()
    if n == "Polygon":
        v = np.asarray(shape.vertices, dtype=float)[:-1, :2]
        pts = [v.mean(axis=0), (v[0] + v[1] + v[2]) / 3.0, v.mean(axis=0) + np.array([1e3, 1e3])]
    else:
        c = np.asarray(shape.center, dtype=float)
        ext = float(getattr(shape, "radius", 0) or max(shape.length, shape.width))
        pts = [c, c + np.array([10.0 * ext + 1.0, 0.0])]
    out = []
    for p in pts:
        try:
            out.append(((float(p[0]), float(p[1])), bool(shape.contains_point(p))))
        except Exception:  # noqa
            pass
    return tuple(out)


def snap(self):
    try:
        it = _Items(spatial.extract(self))
        it.probes = _probes(self)
        return it
    except Exception as e:  # noqa
        return e


def post(self, translation, angle, result, OLD):
    try:
        S = M.SINK
        if S is None or isinstance(OLD.items, Exception):
            return True
        cls = type(self).__name__
        S.counter("contract.translate_rotate." + cls)
        S.counter("angle-class." + angle_class(angle))
        t = (float(translation[0]), float(translation[1]))
        after = spatial.extract(result if result is not None else self)
        exp = spatial.moved(OLD.items, t, float(angle))
        bad = spatial.compare(exp, after, scale_extra=abs(t[0]) + abs(t[1]), tol=float(os.environ.get("VERIF_RIGID_TOL", "1e-11")))
        seen = set()
        for path, kind, e, g in bad:
            key = "C05/%s.translate_rotate/%s-not-moved-rigidly/%s/%s" % (cls, kind, generalise(path), angle_class(angle))
            if key in seen:
                continue
            seen.add(key)
            S.violation(key, "t=%s a=%r: %s expected %s got %s" % (t, angle, path, e, g),
                        {"class": cls, "translation": t, "angle": float(angle), "path": path})
        # relative configuration: a point that was inside (outside) the shape is, moved along, inside (outside) the moved
        # shape (probes are the centroid-like interior points and a far point: no boundary cases)
        res = result if result is not None else self
        for p0, inside in getattr(OLD.items, "probes", ()):
            q = spatial.move_point(p0, t, float(angle))
            import numpy as _np
            S.counter("contract.translate_rotate.containment-probe")
            try:
                now = bool(res.contains_point(_np.array(q)))
            except Exception as e:  # noqa
                S.violation("C05/%s.translate_rotate/contains_point-raises-%s-afterwards" % (cls, type(e).__name__),
                            repr(e)[:200], {"class": cls, "translation": t, "angle": float(angle)})
                continue
            if now != inside:
                S.violation("C05/%s.translate_rotate/containment-not-preserved/%s" % (cls, angle_class(angle)),
                            "t=%s a=%r: point %s was %s the shape, its image %s is %s the moved shape" % (
                                t, angle, p0, "inside" if inside else "outside", q, "inside" if now else "outside"),
                            {"class": cls, "translation": t, "angle": float(angle)})
        if not bad:
            i0, i1 = spatial.rigid_invariants(OLD.items), spatial.rigid_invariants(after)
            sc = 1 + abs(t[0]) + abs(t[1])
            if len(i0) != len(i1) or any(abs(x - y) > 1e-8 * (sc + abs(x)) for x, y in zip(i0, i1)):
                S.violation("C05/%s.translate_rotate/rigid-invariant-changed/%s" % (cls, angle_class(angle)),
                            "t=%s a=%r" % (t, angle), {"class": cls, "translation": t, "angle": float(angle)})
    except Exception as e:  # noqa
        M.SINK.counter("monitor-internal-error:" + type(e).__name__)
    return True


def install():
    if not M.enabled() or not M.once("rigid"):
        return
    import importlib

    import icontract

    class RigidContractBroken(Exception):
        pass

    for mod, names in CLASSES:
        m = importlib.import_module(mod)
        for n in names:
            cls = getattr(m, n)
            if "translate_rotate" in cls.__dict__:
                M.decorate(cls, "translate_rotate", icontract.ensure(post, error=RigidContractBroken),
                           icontract.snapshot(snap, name="items"))
