"""C04 monitors: postconditions on the occupancy / state queries of every obstacle role and on the scenario-level
queries.  The expected answer is recomputed from the obstacle's primary data with vf.oracle.placement."""
import math
import random

import numpy as np

from vf import monitors as M
from vf.oracle import geom, placement

TOL = 1e-9


def _is_exact(state):
    return isinstance(getattr(state, "position", None), np.ndarray) and not state.is_uncertain_orientation


def _skind(shape):
    return type(shape).__name__


def judge_placed(kind, shape, state, occ, t, wit):
    """occ must be the occupancy of 'shape' at 'state' for time step t"""
    S = M.SINK
    S.counter("contract." + kind)
    if occ is None:
        S.violation("C04/%s/none-inside-horizon" % kind, "no occupancy at t=%r although a state exists" % (t,), wit)
        return
    if occ.time_step != t:
        S.violation("C04/%s/occupancy-time-step-differs" % kind, "asked t=%r got occupancy for %r" % (t, occ.time_step), wit)
    if getattr(state, "position", None) is None:
        return
    th = placement.heading(state) if not state.is_uncertain_orientation else None
    if _is_exact(state):
        if th is None:
            return
        S.counter("exact-placement." + _skind(shape))
        exp = placement.expected_occupancy_desc(shape, state)
        try:
            got = geom.describe(occ.shape)
        except TypeError:
            S.violation("C04/%s/occupancy-shape-of-unknown-type" % kind, repr(type(occ.shape)), wit)
            return
        if not geom.desc_equal(exp, got, TOL):
            pm = "/point-mass" if type(state).__name__ == "PMState" else ""
            S.violation("C04/%s/occupancy-is-not-shape-placed-at-state/%s%s" % (kind, _skind(shape), pm),
                        "t=%r state pos=%s heading=%r: expected %s got %s" % (t, list(state.position), th, exp, got), wit)
        return
    # uncertain: enclosure of sampled admissible placements
    S.counter("uncertain-enclosure." + _skind(shape))
    occ_shape = occ.shape
    if _skind(occ_shape) != "Rectangle":
        d = geom.describe(occ_shape)
    rng = random.Random(4711)
    if state.is_uncertain_position:
        try:
            positions = placement.region_sample_points(state.position, rng)
            S.counter("uncertain-position." + _skind(state.position))
        except TypeError:
            return
    else:
        positions = [tuple(map(float, state.position))]
    if state.is_uncertain_orientation:
        a, b = float(state.orientation.start), float(state.orientation.end)
        thetas = [a, b, (a + b) / 2] + [a + (b - a) * rng.random() for _ in range(3)]
        S.counter("uncertain-orientation")
    else:
        if th is None:
            return
        thetas = [float(th)]
    par = placement.params(shape)
    worst, worst_w = 0.0, None
    for pos in positions:
        for thv in thetas:
            placed = placement.place_desc(par, pos, thv)
            for p in placement.desc_points(placed):
                if _skind(occ_shape) == "Rectangle":
                    ex = placement.in_rect_frame(p, tuple(map(float, occ_shape.center)), float(occ_shape.length),
                                                 float(occ_shape.width), float(occ_shape.orientation), 0.0)
                else:
                    v = geom.desc_contains_point(d, p)
                    ex = 0.0 if v in (True, None) else 1.0
                if ex > worst:
                    worst, worst_w = ex, (pos, thv, p)
    scale = 1 + max(abs(c) for c in positions[0])
    if worst > TOL * scale + 1e-9:
        region = _skind(state.position) if state.is_uncertain_position else "exact-position"
        ori = "uncertain-orientation" if state.is_uncertain_orientation else "exact-orientation"
        S.violation("C04/%s/uncertain-occupancy-does-not-enclose/%s-shape/%s-region/%s" % (kind, _skind(shape), region, ori),
                    "a point of the shape placed at admissible position %s, orientation %r lies %.6g outside the "
                    "occupancy (point %s)" % (worst_w[0], worst_w[1], worst, worst_w[2]), wit)


def _wit(ob, t):
    w = {"obstacle_id": getattr(ob, "obstacle_id", None), "role": str(getattr(ob, "obstacle_role", None)), "t": t}
    try:
        w["shape"] = repr(geom.describe(ob.obstacle_shape))[:300]
        st = ob.initial_state
        w["initial_state"] = {a: repr(getattr(st, a))[:120] for a in st.attributes}
    except Exception:
        pass
    return w


def _state_for(ob, t):
    """state of a dynamic obstacle whose time step IS t, found by value (independent of index arithmetic)"""
    from commonroad.prediction.prediction import TrajectoryPrediction
    if t == ob.initial_state.time_step:
        return ob.initial_state, ob.obstacle_shape
    if t > ob.initial_state.time_step and isinstance(ob.prediction, TrajectoryPrediction):
        for s in ob.prediction.trajectory.state_list:
            if s.time_step == t:
                return s, ob.prediction.shape
    return None, None


def post_static_occ(self, time_step, result):
    try:
        if M.SINK is not None and not hasattr(self, "wheelbase_lengths"):
            judge_placed("StaticObstacle.occupancy_at_time", self.obstacle_shape, self.initial_state, result, time_step,
                         _wit(self, time_step))
    except Exception as e:
        M.SINK.counter("monitor-internal-error:" + type(e).__name__)
    return True


def post_dynamic_occ(self, time_step, result):
    try:
        S = M.SINK
        if S is None or hasattr(self, "wheelbase_lengths"):
            return True
        from commonroad.prediction.prediction import SetBasedPrediction
        kind = "DynamicObstacle.occupancy_at_time"
        wit = _wit(self, time_step)
        if isinstance(self.prediction, SetBasedPrediction) and time_step != self.initial_state.time_step:
            S.counter("contract." + kind + "/set-based")
            cands = [o for o in self.prediction.occupancy_set if (o.time_step == time_step if isinstance(o.time_step, int)
                                                                  else o.time_step.start <= time_step <= o.time_step.end)]
            if time_step < self.initial_state.time_step:
                cands = []
            if not cands and result is not None:
                S.violation("C04/%s/occupancy-outside-horizon/set-based" % kind, "t=%r" % time_step, wit)
            elif cands and (result is None or not any(result is c or geom.desc_equal(
                    geom.describe(result.shape), geom.describe(c.shape)) for c in cands)):
                S.violation("C04/%s/stored-occupancy-not-returned/set-based" % kind, "t=%r got %r" % (time_step, result), wit)
            return True
        st, shp = _state_for(self, time_step)
        if st is None:
            S.counter("contract." + kind + "/outside-horizon")
            if result is not None:
                S.violation("C04/%s/occupancy-outside-horizon" % kind, "t=%r (t0=%r) -> occupancy with time step %r" % (
                    time_step, self.initial_state.time_step, result.time_step), wit)
            return True
        judge_placed(kind, shp, st, result, time_step, wit)
    except Exception as e:
        M.SINK.counter("monitor-internal-error:" + type(e).__name__)
    return True


def post_dynamic_state(self, time_step, result):
    try:
        S = M.SINK
        if S is None:
            return True
        from commonroad.prediction.prediction import SetBasedPrediction
        kind = "DynamicObstacle.state_at_time"
        S.counter("contract." + kind)
        wit = _wit(self, time_step)
        if isinstance(self.prediction, SetBasedPrediction) and time_step != self.initial_state.time_step:
            if result is not None:
                S.violation("C04/%s/state-for-set-based-prediction" % kind, repr(result), wit)
            return True
        st, _ = _state_for(self, time_step)
        if st is None and result is not None:
            S.violation("C04/%s/state-outside-horizon" % kind, "t=%r -> state with time step %r" % (
                time_step, result.time_step), wit)
        elif st is not None and result is None:
            S.violation("C04/%s/none-inside-horizon" % kind, "t=%r" % time_step, wit)
        elif st is not None and result is not st:
            if result.time_step != time_step:
                S.violation("C04/%s/state-of-another-time-step" % kind, "asked t=%r got state of t=%r" % (
                    time_step, result.time_step), wit)
            else:
                S.violation("C04/%s/not-the-stored-state" % kind, "t=%r" % time_step, wit)
    except Exception as e:
        M.SINK.counter("monitor-internal-error:" + type(e).__name__)
    return True


def post_phantom_occ(self, time_step, result):
    try:
        S = M.SINK
        if S is None:
            return True
        kind = "PhantomObstacle.occupancy_at_time"
        S.counter("contract." + kind)
        occs = self.prediction.occupancy_set if self.prediction is not None else []
        cands = [o for o in occs if (o.time_step == time_step if isinstance(o.time_step, int)
                                     else o.time_step.start <= time_step <= o.time_step.end)]
        wit = {"obstacle_id": self.obstacle_id, "t": time_step}
        if not cands and result is not None:
            S.violation("C04/%s/occupancy-outside-horizon" % kind, "t=%r" % time_step, wit)
        elif cands and (result is None or not any(result is c for c in cands)):
            S.violation("C04/%s/stored-occupancy-not-returned" % kind, "t=%r got %r" % (time_step, result), wit)
    except Exception as e:
        M.SINK.counter("monitor-internal-error:" + type(e).__name__)
    return True


def post_env_occ(self, time_step, result):
    try:
        S = M.SINK
        if S is None:
            return True
        kind = "EnvironmentObstacle.occupancy_at_time"
        S.counter("contract." + kind)
        if result is None or result.time_step != time_step or not geom.desc_equal(
                geom.describe(result.shape), geom.describe(self.obstacle_shape)):
            S.violation("C04/%s/not-the-obstacle-shape" % kind, "t=%r" % time_step, {"obstacle_id": self.obstacle_id})
    except Exception as e:
        M.SINK.counter("monitor-internal-error:" + type(e).__name__)
    return True


def _occ_key(o):
    d = geom.describe(o.shape)
    return repr(_round(d))


def _round(d):
    if d[0] == "group":
        return ("group", [_round(x) for x in d[1]])
    if d[0] == "circle":
        return ("circle", tuple(round(c, 6) for c in d[1]), round(d[2], 6))
    return (d[0], sorted(tuple(round(c, 6) for c in p) for p in d[1]))


def post_scn_occupancies(self, time_step, obstacle_role, result):
    try:
        S = M.SINK
        if S is None:
            return True
        kind = "Scenario.occupancies_at_time_step"
        S.counter("contract." + kind)
        exp = []
        for ob in self.obstacles:
            if obstacle_role is None or ob.obstacle_role == obstacle_role:
                o = ob.occupancy_at_time(time_step)
                if o is not None:
                    exp.append(o)
        a, b = sorted(_occ_key(o) for o in exp), sorted(_occ_key(o) for o in result)
        if a != b or any(o.time_step != time_step and isinstance(o.time_step, int) for o in result):
            S.violation("C04/%s/differs-from-per-obstacle-answers/role-%s" % (
                kind, obstacle_role.name if obstacle_role is not None else "None"),
                "t=%r: %d occupancies returned, %d implied" % (time_step, len(b), len(a)),
                {"t": time_step, "role": str(obstacle_role)})
    except Exception as e:
        M.SINK.counter("monitor-internal-error:" + type(e).__name__)
    return True


def post_scn_states(self, time_step, result):
    try:
        S = M.SINK
        if S is None:
            return True
        kind = "Scenario.obstacle_states_at_time_step"
        S.counter("contract." + kind)
        exp = {}
        for ob in self.dynamic_obstacles:
            s = ob.state_at_time(time_step)
            if s is not None:
                exp[ob.obstacle_id] = s
        for ob in self.static_obstacles:
            exp[ob.obstacle_id] = ob.state_at_time(time_step)
        if set(exp) != set(result) or any(result[k] is not exp[k] for k in exp):
            S.violation("C04/%s/differs-from-per-obstacle-answers" % kind, "t=%r: ids %s vs implied %s" % (
                time_step, sorted(result), sorted(exp)), {"t": time_step})
    except Exception as e:
        M.SINK.counter("monitor-internal-error:" + type(e).__name__)
    return True


def post_scn_role_type(self, obstacle_role, obstacle_type, result):
    try:
        S = M.SINK
        if S is None:
            return True
        kind = "Scenario.obstacles_by_role_and_type"
        S.counter("contract." + kind)
        exp = [o.obstacle_id for o in self.obstacles if (obstacle_role is None or o.obstacle_role == obstacle_role) and
               (obstacle_type is None or getattr(o, "obstacle_type", None) == obstacle_type)]
        got = [o.obstacle_id for o in result]
        if sorted(exp) != sorted(got):
            S.violation("C04/%s/wrong-selection/role-%s" % (kind, obstacle_role.name if obstacle_role else "None"),
                        "got %s expected %s" % (sorted(got), sorted(exp)), {"role": str(obstacle_role),
                                                                            "type": str(obstacle_type)})
    except Exception as e:
        M.SINK.counter("monitor-internal-error:" + type(e).__name__)
    return True


def post_scn_position(self, position_intervals, obstacle_role, time_step, result):
    try:
        S = M.SINK
        if S is None:
            return True
        from commonroad.scenario.obstacle import ObstacleRole
        kind = "Scenario.obstacles_by_position_intervals"
        S.counter("contract." + kind)
        t = 0 if time_step is None else time_step
        ix, iy = position_intervals
        roles = set(obstacle_role)

        def inside(c):
            vx = ix.start <= c[0] <= ix.end
            vy = iy.start <= c[1] <= iy.end
            return vx and vy

        must, must_not, free = set(), set(), set()
        for ob in self.obstacles:
            if ob.obstacle_role not in roles:
                must_not.add(ob.obstacle_id)
                continue
            if ob.obstacle_role == ObstacleRole.STATIC:
                # the per-obstacle answer: centre of the (origin-centred) shape placed at the state = state position
                pos = ob.initial_state.position
                if not isinstance(pos, np.ndarray):
                    free.add(ob.obstacle_id)
                    continue
                (must if inside(pos) else must_not).add(ob.obstacle_id)
                continue
            occ = ob.occupancy_at_time(t)
            if occ is None:
                must_not.add(ob.obstacle_id)
            elif not hasattr(occ.shape, "center"):
                free.add(ob.obstacle_id)  # shape groups have no centre: observed, not judged
            else:
                (must if inside(occ.shape.center) else must_not).add(ob.obstacle_id)
        got = {o.obstacle_id for o in result}
        if (must - got) or (got & must_not):
            S.violation("C04/%s/wrong-selection" % kind, "got %s, must contain %s, must not contain %s" % (
                sorted(got), sorted(must), sorted(got & must_not)), {"x": [ix.start, ix.end], "y": [iy.start, iy.end],
                                                                     "t": t, "roles": [r.name for r in roles]})
    except Exception as e:
        M.SINK.counter("monitor-internal-error:" + type(e).__name__)
    return True


def install():
    if not M.enabled() or not M.once("occupancy"):
        return
    import icontract
    from commonroad.scenario.obstacle import DynamicObstacle, EnvironmentObstacle, PhantomObstacle, StaticObstacle
    from commonroad.scenario.scenario import Scenario

    class OccupancyContractBroken(Exception):
        pass

    E = OccupancyContractBroken
    M.decorate(StaticObstacle, "occupancy_at_time", icontract.ensure(post_static_occ, error=E))
    M.decorate(DynamicObstacle, "occupancy_at_time", icontract.ensure(post_dynamic_occ, error=E))
    M.decorate(DynamicObstacle, "state_at_time", icontract.ensure(post_dynamic_state, error=E))
    M.decorate(PhantomObstacle, "occupancy_at_time", icontract.ensure(post_phantom_occ, error=E))
    M.decorate(EnvironmentObstacle, "occupancy_at_time", icontract.ensure(post_env_occ, error=E))
    M.decorate(Scenario, "occupancies_at_time_step", icontract.ensure(post_scn_occupancies, error=E))
    M.decorate(Scenario, "obstacle_states_at_time_step", icontract.ensure(post_scn_states, error=E))
    M.decorate(Scenario, "obstacles_by_role_and_type", icontract.ensure(post_scn_role_type, error=E))
    M.decorate(Scenario, "obstacles_by_position_intervals", icontract.ensure(post_scn_position, error=E))
