"""C06 monitors: postconditions on the spatial lookups, judged by a brute-force scan with independent geometry."""
import numpy as np

from vf import monitors as M
from vf.oracle import geom


def is_lattice_num(x, den=64, lim=1e6):
    x = float(x)
    return abs(x) < lim and (x * den) == int(x * den)


def is_lattice_ring(ring):
    return all(is_lattice_num(c) for p in ring for c in p)


def shape_is_lattice(shape):
    n = type(shape).__name__
    if n == "Rectangle":
        return float(shape.orientation) == 0.0 and all(is_lattice_num(v, 32) for v in (
            shape.length, shape.width, shape.center[0], shape.center[1]))
    if n == "Polygon":
        return is_lattice_ring(geom.open_ring(shape.vertices))
    return False


def expected_by_position(net, p):
    """(must, must_not, undecided) sets of lanelet ids"""
    must, must_not, und = set(), set(), set()
    lat_p = is_lattice_num(p[0]) and is_lattice_num(p[1])
    for la in net.lanelets:
        ring = geom.lanelet_ring(la)
        v = geom.point_in_ring((float(p[0]), float(p[1])), ring, exact=lat_p and is_lattice_ring(ring))
        (must if v is True else must_not if v is False else und).add(la.lanelet_id)
    return must, must_not, und


def expected_by_shape(net, shape):
    d = geom.describe(shape)
    lat_s = shape_is_lattice(shape)
    must, must_not, und = set(), set(), set()
    for la in net.lanelets:
        ring = geom.lanelet_ring(la)
        v = geom.desc_ring_relation(d, ring, exact=lat_s and is_lattice_ring(ring))
        (must if v is True else must_not if v is False else und).add(la.lanelet_id)
    return must, must_not, und


def judge(kind, got, must, must_not, und, wit, alt=None):
    """alt: (must, must_not, und) under the 'circle radius halved' reading; used only to classify a mismatch"""
    S = M.SINK
    S.counter("contract." + kind)
    if und:
        S.skipped(len(und))
    got = set(int(g) for g in got)
    missing = must - got
    extra = got & must_not
    unknown = got - must - must_not - und
    if (missing or extra) and alt is not None and not unknown:
        am, an, au = alt
        if not (am - got) and not (got & an):
            kind = kind + "/as-if-circle-radius-halved"
    if missing:
        S.violation("C06/%s/lanelet-missing-from-result" % kind, "missing %s; got %s, geometric truth %s" % (
            sorted(missing), sorted(got), sorted(must)), wit)
    if extra:
        S.violation("C06/%s/lanelet-wrongly-returned" % kind, "extra %s; got %s, geometric truth %s" % (
            sorted(extra), sorted(got), sorted(must)), wit)
    if unknown:
        S.violation("C06/%s/unknown-id-returned" % kind, "ids %s are not lanelets of the network" % sorted(unknown), wit)
    return not (missing or extra or unknown)


def post_find_by_position(self, point_list, result):
    try:
        if M.SINK is None or len(self.lanelets) > 150:
            return True
        for p, got in zip(point_list, result):
            p = np.asarray(p, dtype=float)
            if p.shape != (2,) or len(got) != len(set(got)):
                if len(got) != len(set(got)):
                    M.SINK.violation("C06/find_lanelet_by_position/duplicate-ids", repr(got), list(map(float, p)))
                continue
            must, must_not, und = expected_by_position(self, p)
            judge("find_lanelet_by_position", got, must, must_not, und,
                  {"point": [float(p[0]), float(p[1])], "lanelets": _net_wit(self)})
    except Exception as e:  # a monitor must never disturb what it observes
        M.SINK.counter("monitor-internal-error:" + type(e).__name__)
    return True


def post_find_by_shape(self, shape, result):
    try:
        if M.SINK is None or len(self.lanelets) > 150:
            return True
        must, must_not, und = expected_by_shape(self, shape)
        alt = None
        if type(shape).__name__ == "Circle":
            from commonroad.geometry.shape import Circle
            alt = expected_by_shape(self, Circle(shape.radius / 2, shape.center))
        judge("find_lanelet_by_shape/" + type(shape).__name__, result, must, must_not, und,
              {"shape": _shape_wit(shape), "lanelets": _net_wit(self)}, alt)
    except Exception as e:
        M.SINK.counter("monitor-internal-error:" + type(e).__name__)
    return True


def _net_wit(net):
    out = {}
    for la in net.lanelets[:12]:
        out[la.lanelet_id] = {"right": la.right_vertices.tolist(), "left": la.left_vertices.tolist()}
    return out


def _shape_wit(shape):
    n = type(shape).__name__
    if n == "Rectangle":
        return [n, float(shape.length), float(shape.width), list(map(float, shape.center)), float(shape.orientation)]
    if n == "Circle":
        return [n, float(shape.radius), list(map(float, shape.center))]
    if n == "Polygon":
        return [n, np.asarray(shape.vertices).tolist()]
    return [n]


def install():
    if not M.enabled() or not M.once("lookup"):
        return
    import icontract
    from commonroad.scenario.lanelet import LaneletNetwork

    class LookupContractBroken(Exception):
        pass

    M.decorate(LaneletNetwork, "find_lanelet_by_position",
               icontract.ensure(post_find_by_position, error=LookupContractBroken))
    M.decorate(LaneletNetwork, "find_lanelet_by_shape", icontract.ensure(post_find_by_shape, error=LookupContractBroken))
