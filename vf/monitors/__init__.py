"""Contracts and recorders attached FROM THE HARNESS to the real classes of the tree under test (no repository edit).

All conditions run in record-and-return-True mode: they report to the active sink (a vf.run.Ctx or the pytest plugin's
recorder) and never abort what they observe.  Installed only when COMMONROAD_IO_VERIF=1."""
import os

SINK = None  # object with .violation(key,msg,wit) .counter(name) .evaluation() .skipped() .feature(name)
GUARD = "COMMONROAD_IO_VERIF"
_installed = set()


def set_sink(s):
    global SINK
    SINK = s


def enabled():
    return os.environ.get(GUARD) == "1"


def once(name):
    if name in _installed:
        return False
    _installed.add(name)
    return True


def decorate(cls, method, *decorators):
    """apply icontract decorators (innermost first) to cls.method, in place"""
    f = cls.__dict__[method]
    for d in decorators:
        f = d(f)
    setattr(cls, method, f)
