"""C08 monitors: postconditions on GoalRegion.is_reached and PlanningProblem.goal_reached, judged by an independent
evaluation of the specification."""
import math

import numpy as np

from vf import monitors as M
from vf.monitors.lookup import is_lattice_num, shape_is_lattice
from vf.oracle import geom

TWO_PI = 2 * math.pi
BAND = 1e-9


def _num(x):
    return float(x)


def in_interval(v, iv):
    """closed interval, exact comparison (values are ints / dyadic floats in the generated workload)"""
    return _num(iv.start) <= _num(v) <= _num(iv.end)


def in_angle_interval(th, iv):
    a, b = float(iv.start), float(iv.end)
    near = False
    for k in range(-4, 5):
        v = float(th) + TWO_PI * k
        if a + BAND <= v <= b - BAND:
            return True
        if a - BAND <= v <= b + BAND:
            near = True
    return None if near else False


def speed_heading(state):
    """(speeds, heading) as the statement defines them. Point-mass states (no orientation attribute): hypot / atan2.
    States that carry an orientation AND a lateral velocity (multi-body states): the statement does not say whether
    'velocity' means v_x or |v|, so both readings are returned and a verdict is only given where they agree."""
    attrs = set(state.used_attributes)
    if "velocity_y" in attrs and state.velocity is not None:
        if "orientation" not in state.attributes:
            return [math.hypot(state.velocity, state.velocity_y)], math.atan2(state.velocity_y, state.velocity)
        return [state.velocity, math.hypot(state.velocity, state.velocity_y)], getattr(state, "orientation", None)
    v = getattr(state, "velocity", None)
    return ([v] if v is not None else None), getattr(state, "orientation", None)


def goal_state_satisfied(goal_state, state):
    """True / False / None(undecided: on a band) ; raises KeyError if the state lacks a constrained attribute"""
    verdicts = []
    g = goal_state
    if g.time_step is not None:
        verdicts.append(in_interval(state.time_step, g.time_step))
    speed, head = speed_heading(state)
    if g.has_value("position"):
        pos = getattr(state, "position", None)
        if pos is None:
            raise KeyError("position")
        p = (float(pos[0]), float(pos[1]))
        d = geom.describe(g.position)
        exact = is_lattice_num(p[0]) and is_lattice_num(p[1]) and _desc_lattice(g.position)
        verdicts.append(geom.desc_contains_point(d, p, exact=exact))
    if g.has_value("orientation"):
        if head is None:
            raise KeyError("orientation")
        verdicts.append(in_angle_interval(head, g.orientation))
    if g.has_value("velocity"):
        if speed is None:
            raise KeyError("velocity")
        # a computed speed (hypot) carries rounding error: no verdict within the band of an interval end unless one
        # velocity component is zero (then the speed is exact)
        computed = "velocity_y" in set(state.used_attributes) and state.velocity != 0 and state.velocity_y != 0
        vs = [in_interval(sp, g.velocity) if not _near_end(sp, g.velocity) or (_exactish(sp) and not computed) else None
              for sp in speed]
        verdicts.append(vs[0] if all(v == vs[0] for v in vs) else None)
    if any(v is False for v in verdicts):
        return False
    if any(v is None for v in verdicts):
        return None
    return True


def _exactish(v):
    return isinstance(v, (int, np.integer)) or is_lattice_num(v)


def _near_end(v, iv):
    return abs(float(v) - float(iv.start)) < BAND or abs(float(v) - float(iv.end)) < BAND


def _desc_lattice(shape):
    n = type(shape).__name__
    if n == "ShapeGroup":
        return all(_desc_lattice(s) for s in shape.shapes)
    return shape_is_lattice(shape)


def expected_reached(goal, state):
    res = []
    for g in goal.state_list:
        res.append(goal_state_satisfied(g, state))
    if any(r is True for r in res):
        return True
    return None if any(r is None for r in res) else False


def classify(goal, state):
    k = type(state).__name__
    cons = sorted({a for g in goal.state_list for a in g.used_attributes} - {"time_step"})
    return k, "+".join(cons) or "time-only"


def post_is_reached(self, state, result):
    try:
        S = M.SINK
        if S is None:
            return True
        S.counter("contract.GoalRegion.is_reached")
        try:
            exp = expected_reached(self, state)
        except KeyError:
            return True
        if exp is None:
            S.skipped()
            return True
        if bool(result) != exp:
            k, cons = classify(self, state)
            pm = ""
            if k == "PMState":
                pm = "/vx<0" if state.velocity < 0 else "/vx>=0"
            S.violation("C08/GoalRegion.is_reached/wrong-verdict/%s/%s%s" % (k, cons, pm),
                        "got %s expected %s" % (bool(result), exp), _wit(self, state))
    except Exception as e:  # noqa
        M.SINK.counter("monitor-internal-error:" + type(e).__name__)
    return True


def post_goal_reached(self, trajectory, result):
    try:
        S = M.SINK
        if S is None:
            return True
        S.counter("contract.PlanningProblem.goal_reached")
        try:
            exps = [expected_reached(self.goal, s) for s in trajectory.state_list]
        except KeyError:
            return True
        ok, idx = result
        wit = {"goal": _wit(self.goal, trajectory.state_list[0])["goal"], "verdicts_per_state": exps}
        if any(e is True for e in exps) and not ok:
            S.violation("C08/PlanningProblem.goal_reached/reports-failure-although-a-state-reaches", repr(result), wit)
        elif ok and all(e is False for e in exps):
            S.violation("C08/PlanningProblem.goal_reached/reports-success-although-no-state-reaches", repr(result), wit)
        elif ok and not (0 <= idx < len(exps)):
            S.violation("C08/PlanningProblem.goal_reached/index-out-of-range", repr(result), wit)
        elif ok and exps[idx] is False:
            S.violation("C08/PlanningProblem.goal_reached/index-of-a-state-that-does-not-reach", repr(result), wit)
        elif not ok and idx != -1:
            S.violation("C08/PlanningProblem.goal_reached/failure-with-index", repr(result), wit)
        elif any(e is None for e in exps) and not any(e is True for e in exps):
            S.skipped()
    except Exception as e:  # noqa
        M.SINK.counter("monitor-internal-error:" + type(e).__name__)
    return True


def _wit(goal, state):
    def sd(s):
        out = {"class": type(s).__name__}
        for a in s.attributes:
            v = getattr(s, a)
            if v is None:
                continue
            n = type(v).__name__
            if n in ("Interval", "AngleInterval"):
                out[a] = [n, v.start, v.end]
            elif isinstance(v, np.ndarray):
                out[a] = v.tolist()
            elif hasattr(v, "contains_point"):
                out[a] = repr(geom.describe(v))[:300]
            else:
                out[a] = v
        return out
    return {"goal": [sd(g) for g in goal.state_list], "state": sd(state)}


def install():
    if not M.enabled() or not M.once("goal"):
        return
    import icontract
    from commonroad.planning.goal import GoalRegion
    from commonroad.planning.planning_problem import PlanningProblem

    class GoalContractBroken(Exception):
        pass

    M.decorate(GoalRegion, "is_reached", icontract.ensure(post_is_reached, error=GoalContractBroken))
    M.decorate(PlanningProblem, "goal_reached", icontract.ensure(post_goal_reached, error=GoalContractBroken))
