"""C01 / C02 / C03 monitors: postcondition on the real writers' write_to_file: the bytes on disk are re-opened with the
real reader and compared structurally with the writer's own scenario / planning problems (snapshotted BEFORE the write,
so that a writer that mutates its input cannot hide a loss); XML files are validated against the XSD of the tree under
test and scanned lexically for non-decimal number tokens."""
import os
import re

from vf import monitors as M
from vf.oracle import structure as S

_schema = None
NUM = re.compile(r"^-?\d+(\.\d+)?$")


def schema():
    global _schema
    if _schema is None:
        import lxml.etree as le
        import commonroad
        p = os.path.join(os.path.dirname(commonroad.__file__), "scenario_definition", "xml_definition_files",
                         "XML_commonRoad_XSD.xsd")
        _schema = le.XMLSchema(le.parse(p))
    return _schema


def snap_writer(self):
    try:
        fmt = "xml" if type(self).__name__ == "XMLFileWriter" else "pb"
        sc = S.snap_scenario(self.scenario, first_occurrence=(fmt == "pb"), static_signals=(fmt == "pb"), header=False)
        hdr = {"dt": S.f(self.scenario.dt), "scenario_id": S.snap_scenario_id(self.scenario.scenario_id),
               "author": S.leaf(self.author), "affiliation": S.leaf(self.affiliation), "source": S.leaf(self.source),
               "tags": sorted(t.name for t in self.tags), "location": S.snap_location(self.location)}
        if self.location is None:
            # both formats require a location: the writers document (with a warning) that the default location is written
            from commonroad.scenario.scenario import Location
            hdr["location"] = S.snap_location(Location())
        sc.update(hdr)
        if fmt == "xml":
            # a lanelet without a type is not schema-expressible; the writer documents that it writes 'unknown' instead
            for la in sc["lanelets"].values():
                if not la["lanelet_type"]:
                    la["lanelet_type"] = ["UNKNOWN"]
        return {"scenario": sc, "pps": S.snap_pps(self.planning_problem_set), "fmt": fmt}
    except Exception as e:  # noqa
        return e


def relax_initial_defaults(before, after):
    """unset attributes of initial states read back as 0 (the reader's documented default)"""
    def fix(b, a):
        if not isinstance(b, dict) or not isinstance(a, dict):
            return
        for k in list(a.get("attrs", {})):
            if k not in b.get("attrs", {}) and a["attrs"][k] == ("f", 0.0):
                del a["attrs"][k]
    for oid, ob in before["scenario"]["obstacles"].items():
        oa = after["scenario"]["obstacles"].get(oid)
        if oa and "initial_state" in ob and "initial_state" in oa:
            fix(ob["initial_state"], oa["initial_state"])
    for pid, pb in before["pps"].items():
        pa = after["pps"].get(pid)
        if pa:
            fix(pb["initial_state"], pa["initial_state"])


def classify(path, a, b):
    g = S.generalise(path)
    if a == "<absent>":
        return g + "/populated-although-unset"
    if b == "<absent>":
        return g + "/dropped"
    return g + "/altered"


def check_file(kind, path, before, decimals, sink, wit, scenario_only=False):
    """kind 'xml'|'pb'; returns list of violation keys"""
    from commonroad.common.file_reader import CommonRoadFileReader
    prop = "C01" if kind == "xml" else "C02"
    sink.counter("contract.%s.write_to_file" % kind)
    try:
        sc2, pps2 = CommonRoadFileReader(path).open()
    except Exception as e:  # noqa
        sink.violation("%s/read-back/raises-%s" % (prop, type(e).__name__), repr(e)[:300], wit)
        if kind == "xml":
            sink.violation("C03/own-reader-rejects-file/%s" % type(e).__name__, repr(e)[:300], wit)
        return
    after = {"scenario": S.snap_scenario(sc2, first_occurrence=(kind == "pb"), static_signals=(kind == "pb")),
             "pps": S.snap_pps(pps2)}
    relax_initial_defaults(before, after)
    ok = S.real_ok_xml(decimals) if kind == "xml" else S.real_ok_bits
    # a scenario-only file (write_scenario_to_file) carries no planning problems
    diffs = S.diff({"scenario": before["scenario"], "pps": {} if scenario_only else before["pps"]}, after, ok)
    seen = set()
    for p, a, b in diffs:
        key = "%s/round-trip%s" % (prop, classify(p, a, b))
        if key in seen:
            continue
        seen.add(key)
        sink.violation(key, "%s: wrote %s, read back %s%s" % (p, a, b, (" (precision %d)" % decimals) if kind == "xml"
                                                             else ""), wit)


def check_xsd(path, sink, wit):
    import lxml.etree as le
    sink.counter("contract.xsd")
    doc = le.parse(path)
    sch = schema()
    if not sch.validate(doc):
        seen = set()
        for err in sch.error_log:
            p = re.sub(r"\[\d+\]", "", err.path or "")
            if err.type_name.startswith("SCHEMAV_CVC_DATATYPE") or err.type_name.startswith("SCHEMAV_CVC_MIN"):
                p = p.rsplit("/", 1)[-1]  # mechanism = which kind of number is mis-formatted, not where it occurs
            key = "C03/xsd/%s/%s" % (err.type_name, p)
            if key in seen:
                continue
            seen.add(key)
            sink.violation(key, "line %d: %s" % (err.line, err.message[:300]), wit)
    # lexical scan independent of the schema: every leaf text that looks like it is meant to be a number
    bad = {}
    for el in doc.iter():
        if len(el) == 0 and el.text is not None and el.tag in NUMERIC_TAGS:
            t = el.text.strip()
            if not NUM.match(t):
                bad.setdefault(el.tag, t)
    for k in ("timeStepSize",):
        v = doc.getroot().get(k)
        if v is not None and not NUM.match(v.strip()):
            bad.setdefault("@" + k, v)
    for tag, t in bad.items():
        form = "exponent" if "e" in t.lower() and t.lower() not in ("nan", "inf", "-inf") else \
            "nan-or-inf" if t.lower() in ("nan", "inf", "-inf") else "other"
        sink.violation("C03/number-not-plain-decimal/%s/%s" % (tag, form), "<%s>%s</%s>" % (tag, t, tag), wit)


NUMERIC_TAGS = {"x", "y", "z", "exact", "intervalStart", "intervalEnd", "length", "width", "radius", "orientation",
                "duration", "timeOffset", "geoNameId", "gpsLatitude", "gpsLongitude", "xTranslation", "yTranslation",
                "zRotation", "scaling"}


def post_write(self, filename, OLD):
    try:
        sink = M.SINK
        if sink is None or isinstance(OLD.before, Exception) or not filename or not os.path.isfile(str(filename)):
            return True
        from commonroad.common.writer.file_writer_interface import precision
        kind = OLD.before["fmt"]
        wit = {"file": os.path.basename(str(filename)), "precision": precision.decimals}
        wit.update(getattr(sink, "case_wit", None) or {})
        if kind == "xml":
            check_xsd(str(filename), sink, wit)
        check_file(kind, str(filename), OLD.before, precision.decimals, sink, wit)
    except Exception as e:  # noqa
        M.SINK.counter("monitor-internal-error:" + type(e).__name__)
    return True


def post_write_scenario(self, filename, OLD):
    try:
        sink = M.SINK
        if sink is None or isinstance(OLD.before, Exception) or not filename or not os.path.isfile(str(filename)):
            return True
        from commonroad.common.writer.file_writer_interface import precision
        kind = OLD.before["fmt"]
        wit = {"file": os.path.basename(str(filename)), "precision": precision.decimals, "method": "write_scenario_to_file"}
        wit.update(getattr(sink, "case_wit", None) or {})
        sink.counter("contract.%s.write_scenario_to_file" % kind)
        # (no XSD validation: the schema requires at least one planning problem, a scenario-only file has none)
        check_file(kind, str(filename), OLD.before, precision.decimals, sink, wit, scenario_only=True)
    except Exception as e:  # noqa
        M.SINK.counter("monitor-internal-error:" + type(e).__name__)
    return True


def install():
    if not M.enabled() or not M.once("roundtrip"):
        return
    import icontract
    from commonroad.common.writer.file_writer_protobuf import ProtobufFileWriter
    from commonroad.common.writer.file_writer_xml import XMLFileWriter

    class RoundTripContractBroken(Exception):
        pass

    for cls in (XMLFileWriter, ProtobufFileWriter):
        M.decorate(cls, "write_to_file", icontract.ensure(post_write, error=RoundTripContractBroken),
                   icontract.snapshot(snap_writer, name="before"))
        M.decorate(cls, "write_scenario_to_file", icontract.ensure(post_write_scenario, error=RoundTripContractBroken),
                   icontract.snapshot(snap_writer, name="before"))
