"""Seeded generators of commonroad-io objects through the public constructors.

Gen(rng, reverse_sets=False): every method returns (constructor, kwargs) via *_kw or the built object.  Calling the same
method on two Gen objects with equally seeded rngs yields identical values; reverse_sets=True builds every id set with
the opposite insertion order (colliding small ints, so iteration order really differs)."""
import math

import numpy as np

TWO_PI = 2 * math.pi


def dy(rng, lo=-64, hi=64, den=8):
    """dyadic rational (exact in binary)"""
    return rng.randint(lo * den, hi * den) / den


class Gen:
    def __init__(self, rng, reverse_sets=False, uniq=0):
        self.r = rng
        self.rev = reverse_sets
        self.uniq = uniq
        self.lanelet_pool = None  # when set, obstacle->lanelet id sets are drawn from these (existing) lanelet ids
        self.far = False  # when set: positions with a large first and a small second coordinate (ratio > 1000)

    # ------------------------------------------------------------------------------------------------ primitives
    def S(self, items):
        items = list(items)
        if self.rev:
            items = items[::-1]
        s = set()
        for x in items:
            s.add(x)
        return s

    def idset(self, n=None, base=None, allow_empty=True):
        """ids colliding in small hash tables: multiples of 8 (+ base)"""
        r = self.r
        n = r.choice([0, 1, 2, 3, 4] if allow_empty else [1, 2, 3, 4]) if n is None else n
        base = r.choice([0, 1000, 64]) if base is None else base
        ks = r.sample(range(1, 12), n)
        return self.S(base + 8 * k for k in ks)

    def laneletset(self):
        if self.lanelet_pool is None:
            return self.idset()
        pool = list(self.lanelet_pool)
        return self.S(self.r.sample(pool, self.r.randint(0, len(pool))))

    def real(self, scale=100.0):
        r = self.r
        c = r.random()
        if c < 0.5:
            return round(r.uniform(-scale, scale), 6)
        if c < 0.7:
            return dy(r)
        if c < 0.8:
            return float(r.randint(-50, 50))
        return r.uniform(-scale, scale)

    def pos(self, scale=100.0):
        if self.far:
            return np.array([self.r.choice([2000.0, 5.0e5, -7.5e4]) + self.real(scale), self.real(3.0)])
        return np.array([self.real(scale), self.real(scale)])

    def angle(self):
        r = self.r
        return r.choice([0.0, r.uniform(-math.pi, math.pi), r.uniform(-TWO_PI, TWO_PI), 0.05, -0.3, math.pi / 2])

    def enum(self, E, exclude=()):
        return self.r.choice([e for e in E if e not in exclude])

    def enumset(self, E, n=None):
        r = self.r
        members = list(E)
        n = r.randint(0, min(3, len(members))) if n is None else n
        return self.S(r.sample(members, n))

    def interval(self, lo=-50, hi=50, integer=False):
        from commonroad.common.util import Interval
        r = self.r
        if integer:
            a = r.randint(lo, hi)
            return Interval(a, a + r.randint(0, 10))
        a = self.real(hi)
        return Interval(a, a + r.choice([0.0, 0.5, 1.0, r.uniform(0, 10)]))

    def angle_interval(self):
        from commonroad.common.util import AngleInterval
        r = self.r
        ln = r.choice([0.0, 0.1, 0.5, 1.0, 2.0, 3.0, r.uniform(0, 3.1)])
        a = r.uniform(-math.pi, math.pi - ln) if ln < math.pi else -math.pi
        return AngleInterval(a, a + ln)

    # ---------------------------------------------------------------------------------------------------- shapes
    def rectangle_kw(self, at_origin=False):
        r = self.r
        kw = {"length": r.choice([4.5, 2.0, 1.0, round(r.uniform(0.5, 12), 3)]),
              "width": r.choice([1.8, 1.0, 0.5, round(r.uniform(0.3, 4), 3)])}
        if not at_origin:
            kw["center"] = self.pos()
            kw["orientation"] = self.angle()
        return kw

    def rectangle(self, **o):
        from commonroad.geometry.shape import Rectangle
        kw = self.rectangle_kw(o.pop("at_origin", False))
        kw.update(o)
        return Rectangle(**kw)

    def circle_kw(self, at_origin=False):
        r = self.r
        kw = {"radius": r.choice([0.5, 1.0, 2.5, round(r.uniform(0.2, 6), 3)])}
        if not at_origin:
            kw["center"] = self.pos()
        return kw

    def circle(self, **o):
        from commonroad.geometry.shape import Circle
        kw = self.circle_kw(o.pop("at_origin", False))
        kw.update(o)
        return Circle(**kw)

    def polygon_vertices(self, at_origin=False, n=None):
        """simple star-shaped polygon, clockwise, closed"""
        r = self.r
        n = n or r.choice([3, 4, 5, 7])
        c = np.array([0.0, 0.0]) if at_origin else self.pos()
        angs = sorted(r.uniform(0, TWO_PI) for _ in range(n))
        # keep gaps so that the polygon is simple and non-degenerate
        angs = [TWO_PI * k / n + r.uniform(-0.3, 0.3) * (TWO_PI / n) for k in range(n)]
        pts = [c + r.uniform(1.0, 4.0) * np.array([math.cos(a), math.sin(a)]) for a in angs]
        pts = pts[::-1]  # clockwise
        pts.append(pts[0].copy())
        return np.array(pts)

    def polygon(self, **o):
        from commonroad.geometry.shape import Polygon
        v = o.get("vertices")
        return Polygon(v if v is not None else self.polygon_vertices(o.get("at_origin", False)))

    def shape_group(self, at_origin=False, n=None):
        from commonroad.geometry.shape import ShapeGroup
        n = n or self.r.choice([1, 2, 3])
        return ShapeGroup([self.basic_shape(at_origin=False) for _ in range(n)])

    def basic_shape(self, at_origin=False, kinds=("rectangle", "circle", "polygon")):
        k = self.r.choice(kinds)
        if k == "rectangle":
            return self.rectangle(at_origin=at_origin)
        if k == "circle":
            return self.circle(at_origin=at_origin)
        return self.polygon(at_origin=at_origin)

    def shape(self, at_origin=False, groups=True):
        if groups and self.r.random() < 0.2:
            return self.shape_group(at_origin)
        return self.basic_shape(at_origin)

    # ---------------------------------------------------------------------------------------------------- states
    STATE_CLASSES = ["InitialState", "PMState", "ExtendedPMState", "KSState", "KSTState", "STState", "STDState",
                     "MBState", "LongitudinalState", "LateralState", "InputState", "PMInputState", "LKSInputState"]

    def state_fields(self, clsname):
        import dataclasses
        import commonroad.scenario.state as st
        return [f.name for f in dataclasses.fields(getattr(st, clsname)) if f.name != "time_step"]

    def state_kw(self, clsname, t=0, full=True, fields=None):
        r = self.r
        kw = {"time_step": t}
        for k, name in enumerate(fields if fields is not None else self.state_fields(clsname)):
            if not full and name not in ("position", "orientation") and r.random() < 0.4:
                continue
            if name == "position":
                kw[name] = self.pos()
            elif name in ("orientation", "hitch_angle"):
                kw[name] = self.angle()
            else:
                kw[name] = round(10.0 * (k + 1) + t / 10.0 + r.uniform(-1, 1), 6)
        return kw

    def state(self, clsname="InitialState", t=0, full=True, **o):
        import commonroad.scenario.state as st
        kw = self.state_kw(clsname, t, full)
        kw.update(o)
        return getattr(st, clsname)(**kw)

    def custom_state(self, t=0, fields=("position", "orientation", "velocity", "acceleration")):
        from commonroad.scenario.state import CustomState
        kw = self.state_kw(None, t, True, fields=list(fields))
        return CustomState(**kw)

    def signal_state_kw(self, t=0):
        r = self.r
        kw = {"time_step": t}
        for f in ["horn", "indicator_left", "indicator_right", "braking_lights", "hazard_warning_lights",
                  "flashing_blue_lights"]:
            if r.random() < 0.7:
                kw[f] = r.random() < 0.5
        return kw

    def signal_state(self, t=0):
        from commonroad.scenario.state import SignalState
        return SignalState(**self.signal_state_kw(t))

    def trajectory(self, clsname="KSState", t0=1, n=None, full=True):
        from commonroad.scenario.trajectory import Trajectory
        n = n or self.r.randint(1, 5)
        import commonroad.scenario.state as st
        if full:
            states = [self.state(clsname, t0 + k) for k in range(n)]
        else:
            fields = [f for f in self.state_fields(clsname)
                      if f in ("position", "orientation") or self.r.random() < 0.6]
            states = [getattr(st, clsname)(**self.state_kw(clsname, t0 + k, True, fields=fields)) for k in range(n)]
        return Trajectory(t0, states)

    def occupancy(self, t=1, interval=False):
        from commonroad.prediction.prediction import Occupancy
        from commonroad.common.util import Interval
        ts = Interval(t, t + self.r.randint(0, 2)) if interval else t
        return Occupancy(ts, self.shape())

    def set_based_prediction(self, t0=1, n=None):
        from commonroad.prediction.prediction import SetBasedPrediction
        n = n or self.r.randint(1, 4)
        return SetBasedPrediction(t0, [self.occupancy(t0 + k) for k in range(n)])

    def trajectory_prediction(self, shape=None, t0=1, clsname="KSState", assignment=None):
        from commonroad.prediction.prediction import TrajectoryPrediction
        tr = self.trajectory(clsname, t0)
        shape = shape or self.basic_shape(at_origin=True)
        kw = {}
        if assignment if assignment is not None else self.r.random() < 0.4:
            kw["center_lanelet_assignment"] = {s.time_step: self.laneletset() for s in tr.state_list}
            kw["shape_lanelet_assignment"] = {s.time_step: self.laneletset() for s in tr.state_list}
        return TrajectoryPrediction(tr, shape, **kw)

    # ------------------------------------------------------------------------------------------------- obstacles
    def obstacle_common_kw(self, oid, with_optional=None):
        from commonroad.scenario.obstacle import ObstacleType
        r = self.r
        kw = {"obstacle_id": oid, "obstacle_type": self.enum(ObstacleType),
              "obstacle_shape": self.basic_shape(at_origin=True),
              "initial_state": self.state("InitialState", 0, full=r.random() < 0.7)}
        if with_optional if with_optional is not None else r.random() < 0.7:
            kw["initial_center_lanelet_ids"] = self.laneletset()
            kw["initial_shape_lanelet_ids"] = self.laneletset()
            kw["initial_signal_state"] = self.signal_state(0)
            kw["signal_series"] = [self.signal_state(t) for t in range(1, r.randint(1, 4))]
        return kw

    def static_obstacle(self, oid=1, **o):
        from commonroad.scenario.obstacle import StaticObstacle
        kw = self.obstacle_common_kw(oid, o.pop("with_optional", None))
        kw.update(o)
        return StaticObstacle(**kw)

    def dynamic_obstacle_kw(self, oid=1, with_optional=None, prediction="random"):
        r = self.r
        kw = self.obstacle_common_kw(oid, with_optional)
        if prediction == "random":
            prediction = r.choice(["trajectory", "set", "none"])
        if prediction == "trajectory":
            kw["prediction"] = self.trajectory_prediction(kw["obstacle_shape"],
                                                          clsname=r.choice(["KSState", "STState", "PMState"]))
        elif prediction == "set":
            kw["prediction"] = self.set_based_prediction()
        if with_optional if with_optional is not None else r.random() < 0.3:
            from commonroad.scenario.state import MetaInformationState
            kw["initial_meta_information_state"] = MetaInformationState({"a": "b"}, {"i": 1}, {"f": 0.5}, {"b": True})
            kw["meta_information_series"] = [MetaInformationState({"a": "c"})]
            kw["external_dataset_id"] = r.randint(1, 99)
            kw["history"] = [self.state("InitialState", -1)]
            kw["signal_history"] = [self.signal_state(-1)]
            kw["center_lanelet_ids_history"] = [self.laneletset()]
            kw["shape_lanelet_ids_history"] = [self.laneletset()]
        return kw

    def dynamic_obstacle(self, oid=1, **o):
        from commonroad.scenario.obstacle import DynamicObstacle
        kw = self.dynamic_obstacle_kw(oid, o.pop("with_optional", None), o.pop("prediction_kind", "random"))
        kw.update(o)
        return DynamicObstacle(**kw)

    def phantom_obstacle(self, oid=1, with_prediction=True):
        from commonroad.scenario.obstacle import PhantomObstacle
        return PhantomObstacle(oid, self.set_based_prediction() if with_prediction else None)

    def environment_obstacle(self, oid=1):
        from commonroad.scenario.obstacle import EnvironmentObstacle, ObstacleType
        return EnvironmentObstacle(oid, self.enum(ObstacleType), self.basic_shape())

    # ------------------------------------------------------------------------------------------- lanelet elements
    def stop_line_kw(self, refs=None):
        from commonroad.common.common_lanelet import LineMarking
        kw = {"start": self.pos(), "end": self.pos(), "line_marking": self.enum(LineMarking)}
        if refs if refs is not None else self.r.random() < 0.6:
            kw["traffic_sign_ref"] = self.idset()
            kw["traffic_light_ref"] = self.idset()
        return kw

    def stop_line(self, **o):
        from commonroad.common.common_lanelet import StopLine
        kw = self.stop_line_kw(o.pop("refs", None))
        kw.update(o)
        return StopLine(**kw)

    def lanelet_polylines(self, n=None, x0=None, y0=None, width=3.0, straight=None):
        r = self.r
        n = n or r.choice([2, 3, 5])
        x0 = dy(r) if x0 is None else x0
        y0 = dy(r) if y0 is None else y0
        straight = r.random() < 0.5 if straight is None else straight
        xs = [x0 + 4.0 * k for k in range(n)]
        cy = [y0 + (0.0 if straight else 0.25 * k * k) for k in range(n)]
        left = np.array([[x, y + width / 2] for x, y in zip(xs, cy)])
        right = np.array([[x, y - width / 2] for x, y in zip(xs, cy)])
        center = (left + right) / 2
        return left, center, right

    def lanelet_kw(self, lid=1, full=None):
        from commonroad.common.common_lanelet import LaneletType, LineMarking, RoadUser
        r = self.r
        left, center, right = self.lanelet_polylines()
        kw = {"left_vertices": left, "center_vertices": center, "right_vertices": right, "lanelet_id": lid}
        if full if full is not None else r.random() < 0.8:
            kw.update({
                "predecessor": sorted(self.idset(base=0)), "successor": sorted(self.idset(base=0)),
                "adjacent_left": r.choice([8, 16, 24]), "adjacent_left_same_direction": r.random() < 0.5,
                "adjacent_right": r.choice([32, 40, 48]), "adjacent_right_same_direction": r.random() < 0.5,
                "line_marking_left_vertices": self.enum(LineMarking),
                "line_marking_right_vertices": self.enum(LineMarking),
                "stop_line": self.stop_line(), "lanelet_type": self.enumset(LaneletType),
                "user_one_way": self.enumset(RoadUser), "user_bidirectional": self.enumset(RoadUser),
                "traffic_signs": self.idset(), "traffic_lights": self.idset(), "adjacent_areas": self.idset(),
            })
            if self.rev:
                kw["predecessor"] = kw["predecessor"][::-1]
                kw["successor"] = kw["successor"][::-1]
        return kw

    def lanelet(self, lid=1, **o):
        from commonroad.scenario.lanelet import Lanelet
        kw = self.lanelet_kw(lid, o.pop("full", None))
        kw.update(o)
        return Lanelet(**kw)

    def sign_element_kw(self, country_enum=None):
        from commonroad.scenario.traffic_sign import TrafficSignIDGermany, TrafficSignIDZamunda
        r = self.r
        E = country_enum or r.choice([TrafficSignIDZamunda, TrafficSignIDGermany])
        return {"traffic_sign_element_id": self.enum(E),
                "additional_values": r.choice([[], ["50"], ["30", "abc"], ["13.5"]])}

    def sign_element(self, **o):
        from commonroad.scenario.traffic_sign import TrafficSignElement
        kw = self.sign_element_kw()
        kw.update(o)
        return TrafficSignElement(**kw)

    def traffic_sign_kw(self, sid=1):
        r = self.r
        els, seen = [], set()
        for _ in range(r.randint(1, 3)):
            e = self.sign_element()
            if e.traffic_sign_element_id not in seen:
                seen.add(e.traffic_sign_element_id)
                els.append(e)
        return {"traffic_sign_id": sid, "traffic_sign_elements": els, "first_occurrence": self.idset(),
                "position": self.pos(), "virtual": r.random() < 0.5}

    def traffic_sign(self, sid=1, **o):
        from commonroad.scenario.traffic_sign import TrafficSign
        kw = self.traffic_sign_kw(sid)
        kw.update(o)
        return TrafficSign(**kw)

    def cycle_element(self, **o):
        from commonroad.scenario.traffic_light import TrafficLightCycleElement, TrafficLightState
        kw = {"state": self.enum(TrafficLightState), "duration": self.r.randint(1, 30)}
        kw.update(o)
        return TrafficLightCycleElement(**kw)

    def cycle_kw(self):
        r = self.r
        return {"cycle_elements": [self.cycle_element() for _ in range(r.randint(1, 4))],
                "time_offset": r.choice([0, 1, 5, 17]), "active": r.random() < 0.7}

    def cycle(self, **o):
        from commonroad.scenario.traffic_light import TrafficLightCycle
        kw = self.cycle_kw()
        kw.update(o)
        return TrafficLightCycle(**kw)

    def traffic_light_kw(self, lid=1, full=None):
        from commonroad.scenario.traffic_light import TrafficLightDirection, TrafficLightState
        r = self.r
        kw = {"traffic_light_id": lid, "position": self.pos(), "traffic_light_cycle": self.cycle()}
        if full if full is not None else r.random() < 0.7:
            kw["color"] = r.sample(list(TrafficLightState), r.randint(1, 3))
            kw["active"] = r.random() < 0.5
            kw["direction"] = self.enum(TrafficLightDirection)
            kw["shape"] = self.rectangle()
        return kw

    def traffic_light(self, lid=1, **o):
        from commonroad.scenario.traffic_light import TrafficLight
        kw = self.traffic_light_kw(lid, o.pop("full", None))
        kw.update(o)
        return TrafficLight(**kw)

    def incoming_kw(self, iid=1, full=None):
        kw = {"incoming_id": iid}
        if full if full is not None else self.r.random() < 0.8:
            kw.update({"incoming_lanelets": self.idset(allow_empty=False), "successors_right": self.idset(),
                       "successors_straight": self.idset(), "successors_left": self.idset(),
                       "left_of": self.r.choice([None, 77, 78])})
        return kw

    def incoming(self, iid=1, **o):
        from commonroad.scenario.intersection import IntersectionIncomingElement
        kw = self.incoming_kw(iid, o.pop("full", None))
        kw.update(o)
        return IntersectionIncomingElement(**kw)

    def intersection_kw(self, iid=1, full=None):
        r = self.r
        kw = {"intersection_id": iid, "incomings": [self.incoming(100 + k, full=True) for k in range(r.randint(1, 3))]}
        if full if full is not None else r.random() < 0.7:
            kw["crossings"] = self.idset()
        return kw

    def intersection(self, iid=1, **o):
        from commonroad.scenario.intersection import Intersection
        kw = self.intersection_kw(iid, o.pop("full", None))
        kw.update(o)
        return Intersection(**kw)

    def area_border_kw(self, bid=1, full=None):
        from commonroad.common.common_lanelet import LineMarking
        kw = {"area_border_id": bid, "border_vertices": np.array([self.pos(), self.pos(), self.pos()])}
        if full if full is not None else self.r.random() < 0.7:
            kw["adjacent"] = sorted(self.idset())
            kw["line_marking"] = self.enum(LineMarking)
        return kw

    def area_border(self, bid=1, **o):
        from commonroad.scenario.area import AreaBorder
        kw = self.area_border_kw(bid, o.pop("full", None))
        kw.update(o)
        return AreaBorder(**kw)

    def area_kw(self, aid=1, full=None):
        from commonroad.scenario.area import AreaType
        kw = {"area_id": aid}
        if full if full is not None else self.r.random() < 0.7:
            kw["border"] = [self.area_border(k + 1) for k in range(self.r.randint(1, 3))]
            kw["area_types"] = self.enumset(AreaType)
        return kw

    def area(self, aid=1, **o):
        from commonroad.scenario.area import Area
        kw = self.area_kw(aid, o.pop("full", None))
        kw.update(o)
        return Area(**kw)

    def lanelet_network(self, n_lanelets=None, rich=True):
        from commonroad.scenario.lanelet import LaneletNetwork
        r = self.r
        net = LaneletNetwork()
        n = n_lanelets or r.randint(1, 3)
        for k in range(n):
            net.add_lanelet(self.lanelet(8 * (k + 1), full=rich))
        if rich:
            net.add_traffic_sign(self.traffic_sign(201), set())
            net.add_traffic_light(self.traffic_light(301), set())
            net.add_intersection(self.intersection(401))
            if r.random() < 0.5:
                net.add_area(self.area(501, full=True), set())
        return net

    # ------------------------------------------------------------------------------------------------- planning
    def goal_state(self, t=None, fields=("position", "orientation", "velocity"), cls="CustomState"):
        import commonroad.scenario.state as st
        kw = {"time_step": self.interval(0, 40, integer=True)}
        if "position" in fields:
            kw["position"] = self.shape()
        if "orientation" in fields:
            kw["orientation"] = self.angle_interval()
        if "velocity" in fields:
            kw["velocity"] = self.interval(0, 30)
        if cls == "CustomState":
            return st.CustomState(**kw)
        return getattr(st, cls)(**kw)

    def goal_region_kw(self, lanelets=None):
        r = self.r
        n = r.randint(1, 3)
        states = []
        for _ in range(n):
            fields = [f for f in ("position", "orientation", "velocity") if r.random() < 0.6]
            states.append(self.goal_state(fields=fields, cls=r.choice(["CustomState", "KSState", "InitialState"])))
        kw = {"state_list": states}
        if lanelets if lanelets is not None else r.random() < 0.4:
            kw["lanelets_of_goal_position"] = {0: sorted(self.idset(allow_empty=False))}
        return kw

    def goal_region(self, **o):
        from commonroad.planning.goal import GoalRegion
        kw = self.goal_region_kw(o.pop("lanelets", None))
        kw.update(o)
        return GoalRegion(**kw)

    def planning_problem_kw(self, pid=1):
        return {"planning_problem_id": pid, "initial_state": self.state("InitialState", 0, full=True),
                "goal_region": self.goal_region()}

    def planning_problem(self, pid=1, **o):
        from commonroad.planning.planning_problem import PlanningProblem
        kw = self.planning_problem_kw(pid)
        kw.update(o)
        return PlanningProblem(**kw)

    def planning_problem_set(self, n=None):
        from commonroad.planning.planning_problem import PlanningProblemSet
        n = self.r.randint(0, 3) if n is None else n
        return PlanningProblemSet([self.planning_problem(900 + k) for k in range(n)])

    # -------------------------------------------------------------------------------------------------- scenario
    def scenario_id_kw(self):
        from vf.gen.solutions import gen_scenario_id_fields
        f, _ = gen_scenario_id_fields(self.r)
        return f

    def scenario_id(self, **o):
        from commonroad.scenario.scenario import ScenarioID
        kw = self.scenario_id_kw()
        kw.update(o)
        return ScenarioID(**kw)

    def time_kw(self, full=None):
        r = self.r
        kw = {"hours": r.randint(0, 23), "minutes": r.randint(0, 59)}
        if full if full is not None else r.random() < 0.5:
            kw.update({"day": r.randint(1, 28), "month": r.randint(1, 12), "year": r.randint(2000, 2030)})
        return kw

    def time(self, **o):
        from commonroad.common.util import Time
        kw = self.time_kw(o.pop("full", None))
        kw.update(o)
        return Time(**kw)

    def geo_transformation_kw(self):
        r = self.r
        return {"geo_reference": r.choice(["+proj=utm +zone=32", "EPSG:4326"]), "x_translation": self.real(),
                "y_translation": self.real(), "z_rotation": r.uniform(-3, 3), "scaling": r.choice([1.0, 2.0, 0.5])}

    def geo_transformation(self, **o):
        from commonroad.scenario.scenario import GeoTransformation
        kw = self.geo_transformation_kw()
        kw.update(o)
        return GeoTransformation(**kw)

    def environment_kw(self):
        from commonroad.scenario.scenario import TimeOfDay, Underground, Weather
        return {"time": self.time(), "time_of_day": self.enum(TimeOfDay), "weather": self.enum(Weather),
                "underground": self.enum(Underground)}

    def environment(self, **o):
        from commonroad.scenario.scenario import Environment
        kw = self.environment_kw()
        kw.update(o)
        return Environment(**kw)

    def location_kw(self, full=None):
        r = self.r
        kw = {}
        if full if full is not None else r.random() < 0.8:
            kw = {"geo_name_id": r.randint(1, 10 ** 6), "gps_latitude": round(r.uniform(-90, 90), 6),
                  "gps_longitude": round(r.uniform(-180, 180), 6), "geo_transformation": self.geo_transformation(),
                  "environment": self.environment()}
        return kw

    def location(self, **o):
        from commonroad.scenario.scenario import Location
        kw = self.location_kw(o.pop("full", None))
        kw.update(o)
        return Location(**kw)

    def scenario_kw(self, full=None):
        from commonroad.scenario.scenario import Tag
        r = self.r
        kw = {"dt": r.choice([0.1, 0.04, 0.5])}
        if full if full is not None else r.random() < 0.8:
            kw.update({"scenario_id": self.scenario_id(), "author": r.choice(["A. Author", "B"]),
                       "tags": self.enumset(Tag), "affiliation": r.choice(["TUM", "X"]),
                       "source": r.choice(["gen", "sumo"]), "location": self.location()})
        return kw

    def scenario(self, with_objects=True, **o):
        from commonroad.scenario.scenario import Scenario
        kw = self.scenario_kw(o.pop("full", None))
        kw.update(o)
        sc = Scenario(**kw)
        if with_objects:
            net = self.lanelet_network()
            sc.add_objects(net)
            self.lanelet_pool = [la.lanelet_id for la in net.lanelets]
            sc.add_objects(self.static_obstacle(1001))
            sc.add_objects(self.dynamic_obstacle(1002))
            if self.r.random() < 0.5:
                sc.add_objects(self.phantom_obstacle(1003))
                sc.add_objects(self.environment_obstacle(1004))
        return sc
