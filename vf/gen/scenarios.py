"""Generator of scenarios + planning-problem sets that the 2020a XML schema can express (C01, C03, C15, C18, C19) and, with
fmt='pb', that the shipped protobuf definition can express (C02).  Expressibility is constructive (see DESIGN C01).

Coverage table: case index i walks every member of every enumeration (i-th member modulo its size), every shape kind,
state class, value kind (exact / interval / region) and optional-attribute subset pattern."""
import functools
import math
import os

import numpy as np

TWO_PI = 2 * math.pi
XSD_TRAJ_FIELDS = ["velocity", "acceleration", "yaw_rate", "slip_angle", "steering_angle", "roll_angle", "roll_rate",
                   "pitch_angle", "pitch_rate", "velocity_y", "position_z", "velocity_z", "roll_angle_front",
                   "roll_rate_front", "velocity_y_front", "position_z_front", "velocity_z_front", "roll_angle_rear",
                   "roll_rate_rear", "velocity_y_rear", "position_z_rear", "velocity_z_rear",
                   "left_front_wheel_angular_speed", "right_front_wheel_angular_speed", "left_rear_wheel_angular_speed",
                   "right_rear_wheel_angular_speed", "delta_y_f", "delta_y_r", "curvature", "curvature_rate", "jerk"]
XML_TRAJ_CLASSES = ["KSState", "STState", "MBState", "ExtendedPMState", "InitialStateShaped", "CustomSubset"]
PB_TRAJ_CLASSES = XML_TRAJ_CLASSES + ["PMState", "STDState"]  # the State message has no hitch angle


@functools.lru_cache(None)
def xsd_enums():
    import lxml.etree as le
    import commonroad
    p = os.path.join(os.path.dirname(commonroad.__file__), "scenario_definition", "xml_definition_files",
                     "XML_commonRoad_XSD.xsd")
    t = le.parse(p)
    ns = {"xs": "http://www.w3.org/2001/XMLSchema"}
    out = {}
    for st in t.xpath("//xs:simpleType[@name]", namespaces=ns):
        out[st.get("name")] = set(st.xpath(".//xs:enumeration/@value", namespaces=ns))
    out["tag"] = set(t.xpath("//xs:complexType[@name='tag']//xs:element/@name", namespaces=ns))
    out["direction"] = set(t.xpath("//xs:complexType[@name='trafficLight']//xs:enumeration/@value", namespaces=ns))
    return out


@functools.lru_cache(None)
def pb_enum_names():
    """enum type name -> set of member names, for every enum of the shipped _pb2 modules"""
    import glob
    import importlib
    import commonroad
    d = os.path.join(os.path.dirname(commonroad.__file__), "scenario_definition", "protobuf_format", "generated_scripts")
    out = {}
    for fpath in glob.glob(os.path.join(d, "*_pb2.py")):
        m = importlib.import_module("commonroad.scenario_definition.protobuf_format.generated_scripts." +
                                    os.path.basename(fpath)[:-3])

        def walk(desc):
            for e in desc.enum_types:
                out[e.name] = {v.name for v in e.values}
            for n in desc.nested_types:
                walk(n)
        for msg in m.DESCRIPTOR.message_types_by_name.values():
            walk(msg)
        for e in m.DESCRIPTOR.enum_types_by_name.values():
            out[e.name] = {v.name for v in e.values}
    return out


def expressible(E, fmt, xsd_key=None, pb_key=None):
    if fmt == "xml":
        allowed = xsd_enums()[xsd_key]
        return [m for m in E if m.value in allowed]
    names = pb_enum_names().get(pb_key)
    if names is None:
        return list(E)
    return [m for m in E if m.name in names]


def sign_members(country_code, fmt):
    """traffic-sign element ids of the country's enum that survive the format"""
    from commonroad.scenario import traffic_sign as ts
    E = ts.TrafficSignIDCountries[country_code]
    out = []
    if fmt == "xml":
        allowed = xsd_enums()["trafficSignID"]
        for m in E:
            if m.value not in allowed or m.value == "":
                continue
            if m.value == "274" and m is not getattr(E, "MAX_SPEED", None):
                continue
            try:
                if E(m.value) is not m:
                    continue
            except ValueError:
                continue
            out.append(m)
    else:
        names = pb_enum_names().get(E.__name__)  # e.g. TrafficSignIDPuertoRico; countries without an enum: no signs
        out = [m for m in E if names is not None and m.name in names]
    return out


class ScenarioGen:
    def __init__(self, rng, i=0, fmt="xml", hostile=True, max_lanelets=4, max_obstacles=5, ctx=None, defaults=False,
                 three_d=False):
        from vf.gen.objects import Gen
        self.r, self.i, self.fmt, self.hostile, self.ctx = rng, i, fmt, hostile, ctx
        self.G = Gen(rng)
        self.next_id = 1
        self.max_lanelets, self.max_obstacles = max_lanelets, max_obstacles
        self.defaults = defaults and fmt == "pb"   # constructor-default objects (only the protobuf format admits them)
        self.k = 0
        self.three_d = three_d   # some lanelets carry z coordinates (<z> is an optional child of <point> / a Point field)

    # ------------------------------------------------------------------ helpers
    def feat(self, name):
        if self.ctx is not None:
            self.ctx.feature(name)

    def nid(self):
        self.next_id += self.r.choice([1, 1, 2, 7])
        return self.next_id

    def cyc(self, seq):
        """coverage table: next member in a cycle that depends on the case index"""
        seq = list(seq)
        self.k += 1
        return seq[(self.i + self.k * 7) % len(seq)]

    def real(self, scale=100.0):
        r = self.r
        c = r.random()
        if not self.hostile or c < 0.55:
            return round(r.uniform(-scale, scale), r.choice([1, 3, 6, 12]))
        if c < 0.65:
            return float(r.randint(-50, 50))
        if c < 0.72:
            return r.choice([-0.0, 0.0, 1e-7, -1e-6, 3.2e-5, 9.99e-5, 1e-4, 0.000123456789012])
        if c < 0.8:
            return r.choice([1e5, -1e5, 123456.789012345, 7e6]) + round(r.uniform(0, 1), 9)
        if c < 0.9:
            return r.uniform(-scale, scale)  # full 17 digits
        return round(r.uniform(-1, 1) * 10 ** r.randint(-6, 3), 12)

    def pos(self):
        return np.array([self.real(), self.real()])

    def positive(self):
        r = self.r
        c = r.random()
        if not self.hostile or c < 0.7:
            return round(r.uniform(0.3, 12), r.choice([1, 2, 6, 12]))
        if c < 0.8:
            return r.choice([1, 2, 5])  # python ints
        if c < 0.9:
            return r.choice([1e-4, 3.2e-5, 0.000123456, 1e-6]) if self.fmt == "pb" or True else 1.0
        return r.choice([1e5, 123456.78901, np.float64(2.5)])

    def angle(self):
        r = self.r
        return r.choice([0.0, r.uniform(-math.pi, math.pi), r.uniform(-TWO_PI, TWO_PI), 1e-6, -3.2e-5, math.pi / 2,
                         round(r.uniform(-3, 3), 4)])

    def value(self, kinds=("exact", "interval"), angle=False, nonneg=False):
        from commonroad.common.util import AngleInterval, Interval
        k = self.cyc(kinds)
        self.feat("value." + k)
        if angle:
            if k == "exact":
                return self.angle()
            a = self.r.uniform(-math.pi, math.pi - 1.0)
            return AngleInterval(a, a + self.r.choice([0.0, 0.1, 0.5, 1.0, 2.5]) * 1.0)
        v = abs(self.real()) if nonneg else self.real()
        if k == "exact":
            return v
        return Interval(v, v + self.r.choice([0.0, 0.5, round(self.r.uniform(0, 10), 6)]))

    # ------------------------------------------------------------------- shapes
    def shape(self, at_origin=False, groups=True, kinds=("rectangle", "circle", "polygon", "group")):
        from commonroad.geometry.shape import Circle, Polygon, Rectangle, ShapeGroup
        k = self.cyc([x for x in kinds if groups or x != "group"])
        self.feat("shape." + k)
        if k == "rectangle":
            if at_origin:
                return Rectangle(self.positive(), self.positive())
            return Rectangle(self.positive(), self.positive(), self.pos(), self.angle())
        if k == "circle":
            return Circle(self.positive()) if at_origin else Circle(self.positive(), self.pos())
        if k == "polygon":
            v = self.G.polygon_vertices(at_origin=True)
            return Polygon(v if at_origin else v + self.pos())
        n = self.r.randint(2, 3)
        if at_origin:  # members lose centre/orientation in the dynamic-obstacle encoding: polygons only
            return ShapeGroup([Polygon(self.G.polygon_vertices(at_origin=True) + np.array([3.0 * j, 0.0])) for j in range(n)])
        return ShapeGroup([self.shape(False, groups=False) for _ in range(n)])

    # ------------------------------------------------------------------- states
    def initial_state(self, uncertain=True, planning=False):
        from commonroad.scenario.state import InitialState
        r = self.r
        kw = {"time_step": 0}
        if planning:
            kw.update({"position": self.pos(), "orientation": self.angle(), "velocity": self.real(40),
                       "yaw_rate": self.real(1), "slip_angle": self.real(1)})
            if r.random() < 0.5:
                kw["acceleration"] = self.real(5)
            return InitialState(**kw)
        pk = self.cyc(["point", "point", "region"]) if uncertain else "point"
        kw["position"] = self.pos() if pk == "point" else self.shape(False, kinds=("rectangle", "circle", "polygon"))
        self.feat("initial.position." + pk)
        kw["orientation"] = self.value(angle=True) if uncertain else self.angle()
        pattern = (self.i + self.k) % 16  # all 2^4 subset patterns of the optional attributes
        self.k += 1
        for bit, name in enumerate(["velocity", "acceleration", "yaw_rate", "slip_angle"]):
            if pattern >> bit & 1:
                kw[name] = self.value() if uncertain else self.real(30)
        self.feat("initial.optional-pattern.%d" % pattern)
        return InitialState(**kw)

    def traj_state_factory(self):
        """returns f(t) -> state, all states of one trajectory share class and attribute set"""
        import commonroad.scenario.state as st
        classes = XML_TRAJ_CLASSES if self.fmt == "xml" else PB_TRAJ_CLASSES
        cls = classes[(self.forced // 15) % len(classes)] if getattr(self, "forced", None) is not None else \
            self.cyc(classes)
        self.feat("traj-class." + cls)
        uncertain = self.cyc([False, False, True])
        if cls == "InitialStateShaped":
            fields, C = ["velocity", "acceleration", "yaw_rate", "slip_angle"], st.InitialState
        elif cls == "CustomSubset":
            pool = XSD_TRAJ_FIELDS if self.fmt == "xml" else ["velocity", "acceleration", "yaw_rate", "slip_angle",
                                                              "steering_angle", "velocity_y", "jerk", "curvature"]
            fields, C = self.r.sample(pool, self.r.randint(0, 5)), None
        else:
            C = getattr(st, cls)
            fields = [f for f in self.G.state_fields(cls) if f not in ("position", "orientation")]

        def make(t, oid):
            kw = {"time_step": t}
            kw["position"] = self.shape(False, kinds=("rectangle", "circle", "polygon")) if uncertain and \
                self.r.random() < 0.3 else np.array([1000.0 * (oid % 90) + t + self.frac(), self.real()])
            if cls != "PMState":
                kw["orientation"] = self.value(angle=True) if uncertain and self.r.random() < 0.3 else self.angle()
            for fi, name in enumerate(fields):
                if name in ("hitch_angle",):
                    kw[name] = self.angle()
                else:
                    base = 10.0 * (fi + 1) + t / 8.0
                    if uncertain and self.r.random() < 0.25 and cls != "PMState":  # PM heading needs exact vx, vy
                        from commonroad.common.util import Interval
                        kw[name] = Interval(base, base + round(self.r.uniform(0, 2), 6))
                    else:
                        kw[name] = base + self.frac()
            if C is None:
                return st.CustomState(**kw)
            return C(**kw)
        return make, cls

    def frac(self):
        return round(self.r.random(), self.r.choice([3, 6, 12])) if self.hostile else 0.25

    def signal_state(self, t):
        from commonroad.scenario.state import SignalState
        kw = {"time_step": t}
        flags = ["indicator_left", "indicator_right", "braking_lights", "hazard_warning_lights", "flashing_blue_lights",
                 "horn"]
        for j, fl in enumerate(flags):
            c = (self.i + self.k + j) % 3
            if c != 2:
                kw[fl] = bool(c)
        self.k += 1
        return SignalState(**kw)

    # ------------------------------------------------------------------ network
    def lanelets(self):
        from commonroad.common.common_lanelet import LaneletType, LineMarking, RoadUser
        from commonroad.scenario.lanelet import Lanelet
        r = self.r
        n = r.randint(1, self.max_lanelets)
        ids = [self.nid() for _ in range(n)]
        types = expressible(LaneletType, self.fmt, "laneletType", "LaneletType")
        users = expressible(RoadUser, self.fmt, "vehicleType", "RoadUser")
        marks = expressible(LineMarking, self.fmt, "lineMarking", "LineMarking")
        out = []
        for j, lid in enumerate(ids):
            m = r.choice([2, 3, 5])
            x0, y0 = self.real(), self.real()
            if self.i % 8 == 7:
                # map-projection (UTM-like) coordinates: relative tolerances become metres there
                x0, y0 = 692000.0 + round(x0, 3), 5330000.0 + round(y0, 3)
                self.feat("lanelet.utm-scale-coordinates")
            xs = [x0 + 4.0 * k + (self.frac() if self.hostile else 0) for k in range(m)]
            ys = [y0 + 0.25 * k * k for k in range(m)]
            w = 3.0 + self.frac()
            left = np.array([[x, y + w / 2] for x, y in zip(xs, ys)])
            right = np.array([[x, y - w / 2] for x, y in zip(xs, ys)])
            others = [x for x in ids if x != lid]
            kw = {"line_marking_left_vertices": self.cyc(marks), "line_marking_right_vertices": self.cyc(marks),
                  "lanelet_type": set(r.sample(types, r.randint(1, 3))) | {self.cyc(types)}}
            if self.defaults and j == 0:
                kw = {}
                if self.fmt == "xml":
                    kw["lanelet_type"] = {self.cyc(types)}
            else:
                if others:
                    kw["predecessor"] = r.sample(others, r.randint(0, min(2, len(others))))
                    kw["successor"] = r.sample(others, r.randint(0, min(2, len(others))))
                    if r.random() < 0.6:
                        kw["adjacent_left"] = r.choice(others)
                        kw["adjacent_left_same_direction"] = self.cyc([True, False])
                    if r.random() < 0.6:
                        kw["adjacent_right"] = r.choice(others)
                        kw["adjacent_right_same_direction"] = self.cyc([True, False])
                kw["user_one_way"] = set(r.sample(users, r.randint(0, 2)))
                kw["user_bidirectional"] = set(r.sample(users, r.randint(0, 2))) | ({self.cyc(users)} if r.random() < .5 else set())
            if self.three_d and j % 2 == 0:
                # a ramp through the reference height: negative, exactly zero and positive z on the same bound
                zs = [[-1.0, 0.0, 0.5, 0.0, 2.25][k % 5] if j % 4 == 0 else 3.5 + 0.125 * k for k in range(m)]
                left = np.array([[p[0], p[1], z] for p, z in zip(left, zs)])
                right = np.array([[p[0], p[1], z] for p, z in zip(right, zs)])
                self.feat("lanelet.3d")
                if 0.0 in zs:
                    self.feat("lanelet.3d.zero-height-vertex")
            out.append(Lanelet(left, (left + right) / 2, right, lid, **kw))
        return out

    def network(self, country):
        from commonroad.common.common_lanelet import LineMarking, StopLine
        from commonroad.scenario.intersection import Intersection, IntersectionIncomingElement
        from commonroad.scenario.lanelet import LaneletNetwork
        from commonroad.scenario.traffic_light import (TrafficLight, TrafficLightCycle, TrafficLightCycleElement,
                                                       TrafficLightDirection, TrafficLightState)
        from commonroad.scenario.traffic_sign import TrafficSign, TrafficSignElement
        r = self.r
        lls = self.lanelets()
        net = LaneletNetwork()
        for la in lls:
            net.add_lanelet(la)
        lids = [la.lanelet_id for la in lls]
        members = sign_members(country, self.fmt)
        marks = expressible(LineMarking, self.fmt, "lineMarking", "LineMarking")
        for _ in range(r.randint(0, 3) if members else 0):
            sid = self.nid()
            els, used = [], set()
            for _ in range(r.randint(1, 3)):
                m = self.cyc(members)
                if m in used:
                    continue
                used.add(m)
                from commonroad.scenario.traffic_sign import TRAFFIC_SIGN_WITH_ADDITIONAL_VALUE
                if m.name in TRAFFIC_SIGN_WITH_ADDITIONAL_VALUE:  # such signs are only meaningful with a numeric value
                    els.append(TrafficSignElement(m, r.choice([["50"], ["30"], ["13.5"], ["120"]])))
                else:
                    els.append(TrafficSignElement(m, r.choice([[], [], ["50"], ["30", "abc"], ["7 t"]])))
            refs = set(r.sample(lids, r.randint(1, min(2, len(lids)))))
            virtual = self.cyc([True, False])
            self.feat("sign.virtual.%s" % virtual)
            # first occurrences (protobuf only): usually the referencing lanelets, but any lanelets of the network may be
            # named there, also ones that do not reference the sign themselves
            fo = set()
            if self.fmt == "pb":
                fo = set(refs) if self.cyc([True, False]) else set(r.sample(lids, r.randint(1, len(lids))))
                if fo - set(refs):
                    self.feat("sign.first-occurrence-on-non-referencing-lanelet")
            net.add_traffic_sign(TrafficSign(sid, els, fo, self.pos(), virtual), refs)
        colors = expressible(TrafficLightState, self.fmt, "trafficLightColor", "TrafficLightState")
        dirs = expressible(TrafficLightDirection, self.fmt, "direction", "TrafficLightDirection")
        for _ in range(r.randint(0, 2)):
            tid = self.nid()
            cyc = TrafficLightCycle([TrafficLightCycleElement(self.cyc(colors), r.randint(1, 40))
                                     for _ in range(r.randint(1, 4))], time_offset=self.cyc([0, 0, 3, 17]))
            self.feat("light.offset.%s" % ("zero" if cyc.time_offset == 0 else "positive"))
            active = self.cyc([True, False])
            self.feat("light.active.%s" % active)
            tl = TrafficLight(tid, self.pos(), cyc, active=active, direction=self.cyc(dirs))
            net.add_traffic_light(tl, set(r.sample(lids, r.randint(1, min(2, len(lids))))))
        if self.defaults:
            # a traffic light constructed with its defaults only (no cycle): expressible in protobuf (the cycle elements
            # are a repeated field), not in XML (the schema requires a cycle)
            net.add_traffic_light(TrafficLight(self.nid(), self.pos()), {lids[0]})
            self.feat("light.without-cycle")
            # optional positions left unset (protobuf: optional fields; the XML reader deliberately synthesises positions)
            net.add_traffic_light(TrafficLight(self.nid(), None, TrafficLightCycle([TrafficLightCycleElement(
                self.cyc(colors), 3)])), {lids[-1]})
            if members:
                net.add_traffic_sign(TrafficSign(self.nid(), [TrafficSignElement(members[0], ["50"] if members[
                    0].name in __import__("commonroad.scenario.traffic_sign", fromlist=["x"]).TRAFFIC_SIGN_WITH_ADDITIONAL_VALUE
                    else [])], {lids[0]}, None), {lids[0]})
            self.feat("sign-or-light.without-position")
        # stop lines refer to a subset of their lanelet's signs / lights
        for la in lls:
            if (r.random() < 0.5 or (self.defaults and la is lls[-1])) and not (self.defaults and la is lls[0]):
                kind = self.cyc(["refs", "none-refs", "empty-refs"])
                sr = set(r.sample(sorted(la.traffic_signs), r.randint(0, len(la.traffic_signs)))) if kind == "refs" else \
                    (None if kind == "none-refs" else set())
                lr = set(r.sample(sorted(la.traffic_lights), r.randint(0, len(la.traffic_lights)))) if kind == "refs" else \
                    (None if kind == "none-refs" else set())
                where = self.cyc(["anywhere", "at-lanelet-end", "near-lanelet-end", "anywhere"])
                if self.defaults and la is lls[-1]:
                    where = "without-points"  # start and end are optional (protobuf: repeated points may be empty)
                    p0 = p1 = None
                elif where == "anywhere" or la.left_vertices.shape[1] != 2:
                    p0, p1 = self.pos(), self.pos()
                elif where == "at-lanelet-end":
                    p0, p1 = la.left_vertices[-1].copy(), la.right_vertices[-1].copy()
                else:  # a metre and a half before the end of the lanelet
                    p0 = la.left_vertices[-1] - np.array([1.5, 0.0])
                    p1 = la.right_vertices[-1] - np.array([1.5, 0.0])
                self.feat("stopline." + where)
                la.stop_line = StopLine(p0, p1, self.cyc(marks), sr, lr)
                self.feat("stopline." + kind)
        for _ in range(r.randint(0, 2)):
            incs = []
            inc_ids = [self.nid() for _ in range(r.randint(1, 3))]
            for iid in inc_ids:
                lo = r.choice([None] + [x for x in inc_ids if x != iid]) if len(inc_ids) > 1 else None
                incs.append(IntersectionIncomingElement(
                    iid, set(r.sample(lids, r.randint(1, min(2, len(lids))))), set(r.sample(lids, r.randint(0, 1))),
                    set(r.sample(lids, r.randint(0, min(2, len(lids))))), set(r.sample(lids, r.randint(0, 1))), lo))
            net.add_intersection(Intersection(self.nid(), incs, set(r.sample(lids, r.randint(0, min(2, len(lids)))))))
            self.feat("intersection")
        return net

    # ---------------------------------------------------------------- obstacles
    def obstacles(self):
        from commonroad.common.util import Interval
        from commonroad.prediction.prediction import Occupancy, SetBasedPrediction, TrajectoryPrediction
        from commonroad.scenario.obstacle import (DynamicObstacle, EnvironmentObstacle, ObstacleType, PhantomObstacle,
                                                  StaticObstacle)
        from commonroad.scenario.trajectory import Trajectory
        r = self.r
        out = []
        st_types = expressible(ObstacleType, self.fmt, "obstacleTypeStatic", "ObstacleType")
        dy_types = expressible(ObstacleType, self.fmt, "obstacleTypeDynamic", "ObstacleType")
        en_types = expressible(ObstacleType, self.fmt, "obstacleTypeEnvironment", "ObstacleType")
        roles = ["static", "dynamic", "dynamic", "phantom", "environment"]
        self.forced = None
        for j in range(r.randint(1, self.max_obstacles)):
            role = roles[(self.i + j) % len(roles)]
            # coverage by construction: the first obstacle of case i is fully determined by i
            self.forced = self.i if j == 0 else None
            oid = self.nid()
            self.feat("role." + role)

            def occs():
                import copy as _copy
                res, t = [], 1
                for _ in range(r.randint(1, 4)):
                    # an obstacle that stands still occupies the SAME region at several steps: the same shape object
                    # or an equal copy of it may appear more than once in one occupancy set
                    rep = r.random() if res else 1.0
                    shp = res[-1].shape if rep < 0.15 else _copy.deepcopy(res[-1].shape) if rep < 0.3 else self.shape(False)
                    if rep < 0.3:
                        self.feat("occupancy.repeated-shape")
                    if self.cyc([False, True]):
                        w = r.randint(0, 2)
                        res.append(Occupancy(Interval(t, t + max(w, 1) if t == 0 else t + w), shp))
                        t += w + 1
                        self.feat("occupancy.interval")
                    else:
                        res.append(Occupancy(t, shp))
                        t += 1
                        self.feat("occupancy.exact")
                return res
            if role == "static":
                kw = {}
                if self.fmt == "pb" and not self.defaults and r.random() < 0.5:
                    kw = {"initial_signal_state": self.signal_state(0), "signal_series": [self.signal_state(1)]}
                    self.feat("static.signals")
                out.append(StaticObstacle(oid, self.cyc(st_types), self.shape(False), self.initial_state(), **kw))
            elif role == "dynamic":
                pks = ["trajectory", "set"] if self.fmt == "xml" else ["trajectory", "set", "none"]
                pk = pks[(self.forced // 5) % len(pks)] if self.forced is not None else self.cyc(pks + ["trajectory"])
                shape = self.shape(True)
                init = self.initial_state()
                kw = {}
                if not (self.defaults and j % 2 == 0):
                    c = self.cyc(["both", "none", "initial-only", "series-only"])
                    if c in ("both", "initial-only"):
                        kw["initial_signal_state"] = self.signal_state(0)
                    if c in ("both", "series-only"):
                        kw["signal_series"] = [self.signal_state(t) for t in range(1, r.randint(2, 4))]
                    self.feat("signals." + c)
                else:
                    self.feat("dynamic.default-arguments")
                pred = None
                if pk == "trajectory":
                    make, cls = self.traj_state_factory()
                    t0 = 1 if self.fmt == "xml" else r.choice([1, 1, 2])
                    pred = TrajectoryPrediction(Trajectory(t0, [make(t0 + k, oid) for k in range(r.randint(1, 6))]), shape)
                elif pk == "set":
                    pred = SetBasedPrediction(1, occs())
                self.feat("prediction." + pk)
                out.append(DynamicObstacle(oid, self.cyc(dy_types), shape, init, pred, **kw))
            elif role == "phantom":
                if self.fmt == "pb" and self.defaults:
                    out.append(PhantomObstacle(oid))
                    self.feat("phantom.no-prediction")
                else:
                    out.append(PhantomObstacle(oid, SetBasedPrediction(1, occs())))
            else:
                out.append(EnvironmentObstacle(oid, self.cyc(en_types), self.shape(False)))
        if self.i % 4 in (1, 2) and not self.defaults:
            # vehicles of different models in one file, in both orders: the state vector of the later one is a strict
            # superset / subset of the earlier one's (KS c ST c STD, KS c MB)
            import commonroad.scenario.state as st_
            pair = ("KSState", "STState") if self.i % 4 == 1 else ("MBState", "KSState")   # (i % 4 == 3: defaults mode in pb)
            if self.fmt == "pb" and self.i % 8 == 5:
                pair = ("STState", "STDState")
            for cls_ in pair:
                oid = self.nid()
                fields_ = [f for f in self.G.state_fields(cls_) if f not in ("position", "orientation")]
                states_ = []
                for t in (1, 2, 3):
                    kw_ = {"time_step": t, "position": np.array([1000.0 * (oid % 90) + t, 2.5]), "orientation": 0.125 * t}
                    for fi, name in enumerate(fields_):
                        kw_[name] = 10.0 * (fi + 1) + t / 8.0
                    states_.append(getattr(st_, cls_)(**kw_))
                shp_ = self.shape(True)
                out.append(DynamicObstacle(oid, self.cyc(dy_types), shp_, self.initial_state(),
                                           TrajectoryPrediction(Trajectory(1, states_), shp_)))
            self.feat("trajectories-of-nested-state-classes.%s-then-%s" % pair)
        return out

    # ----------------------------------------------------------------- planning
    def planning_problems(self, lanelet_ids, n=None):
        import commonroad.scenario.state as st
        from commonroad.common.util import AngleInterval, Interval
        from commonroad.planning.goal import GoalRegion
        from commonroad.planning.planning_problem import PlanningProblem, PlanningProblemSet
        r = self.r
        pps = []
        # position kinds per goal state: the first problem of case i follows a forced pattern (position-less goal states
        # BEFORE / BETWEEN lanelet-valued ones shift every index-based bookkeeping), the others are cyclic / random
        forced = [["none", "lanelets"], ["none", "none", "lanelets"], ["shape", "none", "lanelets"],
                  ["lanelets", "none", "lanelets"], ["none", "group", "lanelets", "shape"], None, None][self.i % 7]
        for ppi in range(n if n is not None else r.randint(1, 3)):
            goals, lan = [], {}
            pattern = forced if ppi == 0 and forced else None
            ng = len(pattern) if pattern else r.randint(1, 3)
            for gi in range(ng):
                ts = r.randint(0, 30)
                kw = {"time_step": Interval(ts, ts + r.randint(1, 20))}
                pk = pattern[gi] if pattern else (self.cyc(["none", "shape", "group", "lanelets"]) if r.random() < 0.5
                                                  else r.choice(["none", "shape", "group", "lanelets"]))
                if pattern and pk == "lanelets" and "none" in pattern[:gi]:
                    self.feat("goal.lanelets-after-positionless-goal-state")
                self.feat("goal.position." + pk)
                if pk == "shape":
                    kw["position"] = self.shape(False, groups=False)
                elif pk == "group":  # the schema admits several shapes of ONE kind as a position
                    from commonroad.geometry.shape import ShapeGroup
                    kind = self.cyc(["rectangle", "circle", "polygon"])
                    kw["position"] = ShapeGroup([self.shape(False, kinds=(kind,)) for _ in range(r.randint(2, 3))])
                elif pk == "lanelets":
                    ids = r.sample(lanelet_ids, r.randint(1, min(2, len(lanelet_ids))))
                    lan[gi] = ids
                if self.cyc([True, False]):
                    a = r.uniform(-math.pi, 1.0)
                    kw["orientation"] = AngleInterval(a, a + r.choice([0.1, 0.5, 1.0, 2.0]))
                    if self.cyc([False, True, False]):
                        # "any heading": an interval just short of the full circle, its ends given with one decimal more than
                        # the writer of this case keeps (what is written must still be shorter than 2 pi)
                        k_ = 2 + self.i % 12
                        b_ = math.floor(math.pi * 10 ** k_) / 10 ** k_
                        kw["orientation"] = AngleInterval(-b_, b_)
                        self.feat("goal.orientation.almost-full-circle")
                if self.cyc([True, False, True]):
                    v = abs(self.real(30))
                    kw["velocity"] = Interval(v, v + round(r.uniform(0, 10), 6))
                goals.append((kw, pk))
            pps.append((self.nid(), self.initial_state(planning=True), goals, lan))
        return pps

    # ----------------------------------------------------------------- scenario
    def build(self):
        """-> (scenario, planning_problem_set)"""
        import commonroad.scenario.state as st
        from commonroad.common.util import Time
        from commonroad.geometry.shape import ShapeGroup
        from commonroad.planning.goal import GoalRegion
        from commonroad.planning.planning_problem import PlanningProblem, PlanningProblemSet
        from commonroad.scenario.scenario import (Environment, GeoTransformation, Location, Scenario, ScenarioID, Tag,
                                                  TimeOfDay, Underground, Weather)
        from commonroad.scenario.traffic_sign import SupportedTrafficSignCountry
        from vf.gen.solutions import gen_scenario_id_fields
        r = self.r
        country = self.cyc([c.value for c in SupportedTrafficSignCountry])
        f, _ = gen_scenario_id_fields(r)
        f["country_id"] = country
        tags = expressible(Tag, self.fmt, "tag", "Tag")
        tods = expressible(TimeOfDay, self.fmt, "timeOfDay", "TimeOfDay")
        weathers = [w for w in expressible(Weather, self.fmt, "weather", "Weather") if self.fmt == "pb" or
                    w is not Weather.UNKNOWN]
        unders = [u for u in expressible(Underground, self.fmt, "underground", "Underground") if self.fmt == "pb" or
                  u is not Underground.UNKNOWN]
        geo = None
        if self.cyc([True, False]):
            # every subset of the four parameters of the additional transformation at its neutral value (0, 0, 0, 1): a
            # pure scaling, a pure rotation, a pure translation, the identity, ...
            mask = (self.i // 2) % 16
            vals = [self.real(), self.real(), self.angle(), self.positive()]
            vals = [v if mask >> b & 1 else (0.0, 0.0, 0.0, 1.0)[b] for b, v in enumerate(vals)]
            geo = GeoTransformation(r.choice(["+proj=utm +zone=32 +ellps=WGS84", "EPSG:4326"]), *vals)
            self.feat("geo-transformation.non-neutral-parameters=%s" % "".join(
                n for b, n in enumerate("xyrs") if mask >> b & 1))
        env = None
        if self.cyc([True, True, False]):
            # (hours 0..24 are documented; 24:00 and 00:00 are the two ends of the day)
            hm = self.cyc([(r.randint(0, 23), r.randint(0, 59)), (24, 0), (0, 0), (r.randint(1, 23), r.randint(0, 59)),
                           (23, 59)])
            if hm == (24, 0):
                self.feat("environment.time-24:00")
            tm = Time(*hm)
            if self.fmt == "pb" and self.cyc([False, True]):
                # the protobuf time stamp also has fields for the calendar date of the fictive start time
                tm = Time(hm[0] % 24, hm[1], day=r.randint(1, 28), month=r.randint(1, 12), year=r.randint(1990, 2090))
                self.feat("environment.time-with-date")
            env = Environment(tm, self.cyc(tods), self.cyc(weathers), self.cyc(unders))
        loc = Location(r.randint(1, 10 ** 7), round(r.uniform(-90, 90), r.choice([2, 6, 12])),
                       self.real(180) if self.hostile else 11.5, geo, env)
        dt = r.choice([0.1, 0.04, 0.5, 1, 0.02]) if not self.hostile else r.choice([0.1, 0.04, 1, 1e-5, 0.000123, 0.5])
        sc = Scenario(dt, ScenarioID(**f), author=r.choice(["A. Author", "B & C <x>"]),
                      tags=set(r.sample(tags, r.randint(0, 3))) | {self.cyc(tags)}, affiliation=r.choice(["TUM", "Ünï"]),
                      source=r.choice(["generated", "sumo"]), location=loc)
        net = self.network(country)
        sc.add_objects(net)
        for o in self.obstacles():
            sc.add_objects(o)
        lids = [la.lanelet_id for la in net.lanelets]
        plist = []
        for pid, init, goals, lan in self.planning_problems(lids):
            states = []
            for gi, (kw, pk) in enumerate(goals):
                if pk == "lanelets":
                    kw["position"] = ShapeGroup([net.find_lanelet_by_id(x).polygon for x in lan[gi]])
                cls = self.cyc(["CustomState", "KSState", "InitialState", "STState"])
                states.append(st.CustomState(**kw) if cls == "CustomState" else getattr(st, cls)(**kw))
            plist.append(PlanningProblem(pid, init, GoalRegion(states, lan or None)))
        return sc, PlanningProblemSet(plist)
