"""Lanelet networks on a dyadic lattice (multiples of 1/8): exact geometry oracles apply (C06, C07, C10)."""
import math

import numpy as np

Q = 8  # lattice denominator


def q(rng, lo, hi):
    return rng.randint(lo * Q, hi * Q) / Q


def strip(rng, x0, y0, n, dx, width, wobble=True, vertical=False):
    """right/left/center polylines of a strip with strictly increasing abscissa: simple polygon by construction"""
    xs = [x0 + dx * k for k in range(n)]
    ys = [y0]
    for k in range(1, n):
        ys.append(ys[-1] + (rng.choice([0, 0, 0.5, -0.5, 1.0, -0.25]) if wobble else 0))
    right = [(x, y) for x, y in zip(xs, ys)]
    left = [(x, y + width) for x, y in zip(xs, ys)]
    if vertical:
        # mirror on the diagonal: keeps simplicity; 'right' stays the first boundary of the ring
        right = [(y, x) for x, y in right]
        left = [(y, x) for x, y in left]
    right, left = np.array(right, dtype=float), np.array(left, dtype=float)
    return left, (left + right) / 2, right


def arc(cx, cy, radius, width, n=7, a0=0.0, a1=math.pi / 2):
    """left/center/right polylines of a lanelet that follows a circular arc (driving counter-clockwise: the left boundary
    is the inner, shorter one): boundary segments and centre segments differ in length"""
    ang = [a0 + (a1 - a0) * k / (n - 1) for k in range(n)]
    ring = lambda r: np.array([(cx + r * math.cos(a), cy + r * math.sin(a)) for a in ang], dtype=float)  # noqa
    return ring(radius - width / 2), ring(radius), ring(radius + width / 2)


def lanelet(lid, polylines, **kw):
    from commonroad.scenario.lanelet import Lanelet
    left, center, right = polylines
    return Lanelet(left, center, right, lid, **kw)


def gen_lanelets(rng, nmax=8, base_id=1, types=False):
    """list of lanelets: straight, wobbling, adjacent (shared boundary), crossing/overlapping, nested, disjoint, twins"""
    from commonroad.common.common_lanelet import LaneletType
    out = []
    n = rng.randint(1, nmax)
    lid = base_id
    x0, y0 = q(rng, -8, 8), q(rng, -8, 8)
    kinds = []
    while len(out) < n:
        kind = rng.choice(["straight", "wobble", "adjacent", "crossing", "nested", "disjoint", "successor", "twin"])
        kw = {}
        if types:
            kw["lanelet_type"] = set(rng.sample(list(LaneletType), rng.randint(1, 2)))
        if kind in ("straight", "wobble") or not out:
            pl = strip(rng, x0 + q(rng, -4, 4), y0 + q(rng, -4, 4), rng.randint(2, 5), rng.choice([1.0, 2.0, 4.0]),
                       rng.choice([2.0, 3.0, 3.5]), wobble=(kind == "wobble"))
        elif kind == "adjacent":
            prev = out[-1]
            right = prev.left_vertices.copy()  # shared boundary
            w = rng.choice([2.0, 3.0])
            if abs(prev.left_vertices[0][0] - prev.right_vertices[0][0]) < 1e-12:  # horizontal strip: offset in y
                left = right + np.array([0.0, w])
            else:
                left = right + np.array([-w, 0.0]) if prev.left_vertices[0][0] < prev.right_vertices[0][0] else \
                    right + np.array([w, 0.0])
            pl = (left, (left + right) / 2, right)
        elif kind == "crossing":
            pl = strip(rng, y0 + q(rng, -6, 2), x0 + q(rng, -2, 6), rng.randint(2, 4), rng.choice([2.0, 4.0]),
                       rng.choice([2.0, 3.0]), wobble=False, vertical=True)
        elif kind == "nested":
            prev = out[-1]
            bx0, by0 = prev.right_vertices[0]
            pl = strip(rng, bx0 + 0.25, by0 + 0.5, 2, 0.5, 0.5, wobble=False)
        elif kind == "twin":
            # the same strip modelled twice under two ids (e.g. vehicle lane and bus lane): identical coordinates
            prev = out[-1]
            pl = (prev.left_vertices.copy(), prev.center_vertices.copy(), prev.right_vertices.copy())
        elif kind == "successor":
            prev = out[-1]
            ex, ey = prev.right_vertices[-1]
            w = prev.left_vertices[-1][1] - prev.right_vertices[-1][1]
            if w <= 0:
                continue
            pl = strip(rng, ex, ey, rng.randint(2, 4), 2.0, w, wobble=True)
        else:
            pl = strip(rng, x0 + 100 + 20 * len(out), y0 + q(rng, -4, 4), 2, 4.0, 3.0, wobble=False)
        out.append(lanelet(lid, pl, **kw))
        kinds.append(kind)
        lid += 1
    return out, kinds


def lattice_points(rng, lanelets, n_random=6):
    """query points: vertices, edge midpoints, interior, exterior near, far; all on the lattice except the random floats"""
    pts = []
    for la in lanelets:
        ring = np.concatenate((la.right_vertices, la.left_vertices[::-1]))
        k = rng.randrange(len(ring))
        pts.append(("vertex", tuple(ring[k])))
        a, b = ring[k], ring[(k + 1) % len(ring)]
        pts.append(("edge-mid", tuple((a + b) / 2)))
        c = (la.right_vertices[0] + la.left_vertices[1]) / 2
        pts.append(("interior", tuple(c)))
        pts.append(("outside-near", (float(ring[k][0]), float(ring[k][1]) - 0.125 * rng.choice([1, -1, 8]))))
    pts.append(("far", (1e4, -1e4)))
    for _ in range(n_random):
        la = rng.choice(lanelets)
        c = la.center_vertices[rng.randrange(len(la.center_vertices))]
        pts.append(("random", (float(c[0]) + rng.uniform(-3, 3), float(c[1]) + rng.uniform(-3, 3))))
    return pts


def query_shapes(rng, lanelets, G):
    """(kind, shape, exact) query shapes around the lanelets"""
    from commonroad.geometry.shape import Circle, Polygon, Rectangle
    out = []
    for _ in range(6):
        la = rng.choice(lanelets)
        ring = np.concatenate((la.right_vertices, la.left_vertices[::-1]))
        v = ring[rng.randrange(len(ring))]
        k = rng.choice(["aligned-rect", "aligned-rect-touching", "rot-rect", "circle", "circle-near", "polygon",
                        "far-rect"])
        if k == "aligned-rect":
            c = np.array([v[0] + q(rng, -2, 2), v[1] + q(rng, -2, 2)])
            out.append((k, Rectangle(rng.choice([0.5, 1.0, 2.0, 4.5]), rng.choice([0.25, 1.0, 2.0]), c, 0.0), True))
        elif k == "aligned-rect-touching":
            # box whose corner or edge touches the vertex exactly
            L, W = rng.choice([1.0, 2.0]), rng.choice([0.5, 1.0])
            sx, sy = rng.choice([-1, 1]), rng.choice([-1, 1])
            c = np.array([v[0] + sx * L / 2, v[1] + sy * W / 2])
            out.append((k, Rectangle(L, W, c, 0.0), True))
        elif k == "rot-rect":
            c = np.array([v[0] + rng.uniform(-2, 2), v[1] + rng.uniform(-2, 2)])
            out.append((k, Rectangle(4.5, 1.8, c, rng.uniform(-3.1, 3.1)), False))
        elif k == "circle":
            c = np.array([v[0] + q(rng, -3, 3), v[1] + q(rng, -3, 3)])
            out.append((k, Circle(rng.choice([0.5, 1.0, 2.0, 3.0]), c), False))
        elif k == "circle-near":
            # centre below/above a horizontal-ish boundary at distance d, radius d +- 1/8 (clear of the 64-gon band)
            d = rng.choice([1.0, 2.0])
            c = np.array([v[0], v[1] - d]) if rng.random() < 0.5 else np.array([v[0] - d, v[1]])
            out.append((k, Circle(d + rng.choice([0.125, -0.125, 0.5]), c), False))
        elif k == "polygon":
            c = np.array([v[0] + q(rng, -2, 2), v[1] + q(rng, -2, 2)])
            tri = np.array([c, c + np.array([rng.choice([1.0, 2.0]), 0.0]), c + np.array([0.0, rng.choice([0.5, 1.5])])])
            out.append((k, Polygon(tri), True))
        else:
            out.append((k, Rectangle(2.0, 1.0, np.array([5e3, 5e3]), 0.0), True))
    # a rotated box whose centre lies OUTSIDE the lanelet's bounding box, farther than half its longer side, so that at
    # most a corner reaches in (the case every centre-distance or bounding-circle shortcut gets wrong)
    import math
    la = rng.choice(lanelets)
    ring = np.concatenate((la.right_vertices, la.left_vertices[::-1]))
    xmin, ymin, xmax, ymax = ring[:, 0].min(), ring[:, 1].min(), ring[:, 0].max(), ring[:, 1].max()
    L, W = rng.choice([(2.0, 2.0), (4.5, 1.8), (5.0, 2.0)])
    th = math.pi / 4 if L == W else math.atan2(L, W) * rng.choice([1, -1])  # diagonal on the y axis
    half = (L * abs(math.sin(th)) + W * abs(math.cos(th))) / 2
    lo = 0.5 * max(L, W)
    d = lo + (half - lo) * rng.choice([0.2, 0.5, 0.8])
    side = rng.choice(["below", "above"])
    cx = float(rng.uniform(xmin, xmax))
    cy = float(ymin - d) if side == "below" else float(ymax + d)
    out.insert(0, ("rot-rect-corner", Rectangle(L, W, np.array([cx, cy]), th), False))
    # a U-shaped polygon around the END of a lanelet: the arms pass outside both boundaries, the connector lies beyond the
    # end, the centroid of the polygon (its reference point) falls on the lanelet that the polygon itself may not touch
    la = rng.choice(lanelets)
    pr, pl = la.right_vertices[-1], la.left_vertices[-1]
    if abs(float(pr[0]) - float(pl[0])) < 1e-9 and float(pl[1]) > float(pr[1]):   # a horizontal strip ending at x = xe
        xe, yr, yl = float(pr[0]), float(pr[1]), float(pl[1])
        g = rng.choice([1.5, 2.0])
        u = np.array([[xe - 6.0, yr - g - 1.0], [xe + 2.0, yr - g - 1.0], [xe + 2.0, yl + g + 1.0], [xe - 6.0, yl + g + 1.0],
                      [xe - 6.0, yl + g], [xe + 1.0, yl + g], [xe + 1.0, yr - g], [xe - 6.0, yr - g]])
        out.insert(1, ("u-polygon-around-lanelet-end", Polygon(u), True))
    # a shape group whose FIRST member only comes near a lanelet (its bounding box overlaps the lanelet's bounding box at a
    # corner, the thin diagonal box itself stays clear of it) and whose SECOND member lies on that lanelet: the group is the
    # union of its members whatever the order in which the index hands out candidates
    from commonroad.geometry.shape import ShapeGroup
    la = rng.choice(lanelets)
    ring = np.concatenate((la.right_vertices, la.left_vertices[::-1]))
    xmin, ymin = float(ring[:, 0].min()), float(ring[:, 1].min())
    near = Rectangle(6.0, 0.2, np.array([xmin - 1.5, ymin - 1.5]), -math.pi / 4)
    cm = la.center_vertices[len(la.center_vertices) // 2]
    on = Rectangle(0.5, 0.25, np.array([float(cm[0]), float(cm[1])]), 0.0)
    out.insert(2, ("group-near-member-then-member-on-lanelet", ShapeGroup([near, on]), False))
    return out
