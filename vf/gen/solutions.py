"""Generators for ScenarioID field combinations and Solution objects (C13, C14)."""
import datetime
import math
import struct


def countries():
    import iso3166
    return sorted(iso3166.countries_by_alpha3.keys()) + ["ZAM"]


def gen_scenario_id_fields(rng, exotic=True):
    """One valid ScenarioID constructor-argument dict (canonical: single prediction ids are ints)."""
    import string
    alnum = string.ascii_letters + string.digits
    n = rng.choice([1, 2, 3, 5, 8, 12])
    name = "".join(rng.choice(alnum) for _ in range(n))
    if rng.random() < 0.15:
        name = rng.choice(["US101", "Test", "A9", "0", "Z", "a1b2", "Muc", "T1", "S", "P2", "I80"])
    f = {
        "cooperative": rng.random() < 0.4,
        "country_id": rng.choice(countries()),
        "map_name": name,
        "map_id": rng.choice([1, 2, 9, 10, 33, 100, rng.randint(1, 10 ** 6)]),
        "configuration_id": None, "obstacle_behavior": None, "prediction_id": None,
    }
    kind = rng.choice(["map", "config", "behaviour", "behaviour+id", "behaviour+ids", "behaviour-noconfig"])
    if kind != "map":
        if kind != "behaviour-noconfig":
            f["configuration_id"] = rng.choice([1, 2, 10, 99, rng.randint(1, 10 ** 5)])
        if kind.startswith("behaviour"):
            f["obstacle_behavior"] = rng.choice(["S", "T", "P", "I"])
            if kind == "behaviour+id":
                f["prediction_id"] = rng.choice([1, 2, 10, rng.randint(1, 10 ** 4)])
            elif kind == "behaviour+ids":
                f["prediction_id"] = [rng.choice([1, 2, 3, 10, 45, rng.randint(1, 999)])
                                      for _ in range(rng.randint(2, 4))]
    return f, kind


MODEL_FIELDS = {
    "PM": ("PMState", ["position", "velocity", "velocity_y"]),
    "ST": ("STState", ["position", "steering_angle", "velocity", "orientation", "yaw_rate", "slip_angle"]),
    "KS": ("KSState", ["position", "steering_angle", "velocity", "orientation"]),
    "KST": ("KSTState", ["position", "steering_angle", "velocity", "orientation", "hitch_angle"]),
    "MB": ("MBState", None),  # all dataclass fields
    "Input": ("InputState", ["steering_angle_speed", "acceleration"]),
    "PMInput": ("PMInputState", ["acceleration", "acceleration_y"]),
}
SCHEMA_ORDER = ["PMInput", "Input", "PM", "KS", "ST", "MB"]  # order of the shipped solution XSD; KST is not defined


def hostile_float(rng):
    c = rng.random()
    if c < 0.25:
        return rng.uniform(-100, 100)
    if c < 0.35:
        return float(rng.randint(-1000, 1000))
    if c < 0.45:
        return rng.choice([0.0, -0.0, 1e-5, -1e-5, 1e-7, 9.999e-5, 1e16, 1e22, 123456789.123456789, 5e-324, 2.2e-308,
                           1.7976931348623157e308, -1.7976931348623157e308, 1e300, -1e-300, 0.1, 1 / 3, math.pi])
    if c < 0.75:
        # random bit pattern, finite
        while True:
            v = struct.unpack("<d", struct.pack("<Q", rng.getrandbits(64)))[0]
            if math.isfinite(v):
                return v
    if c < 0.85:
        return rng.randint(-10 ** 6, 10 ** 6)  # python int
    return rng.uniform(-1, 1) * 10 ** rng.randint(-20, 20)


def gen_trajectory(rng, kind, uniq_base=0, n=None, shuffle=False, hostile=True):
    """Trajectory of the given kind with unique per-field values (value encodes field index and time step)."""
    import dataclasses
    import numpy as np
    import commonroad.scenario.state as st
    from commonroad.scenario.trajectory import Trajectory
    clsname, fields = MODEL_FIELDS[kind]
    cls = getattr(st, clsname)
    if fields is None:
        fields = [f.name for f in dataclasses.fields(cls) if f.name != "time_step"]
    n = n or rng.randint(1, 6)
    t0 = rng.choice([0, 0, 1, 5, rng.randint(0, 1000)])
    times = list(range(t0, t0 + n))
    if shuffle and n > 2:
        rest = times[1:]
        rng.shuffle(rest)
        times = [times[0]] + rest
    states, spec = [], []
    # time steps taken from an integer array (np.arange) are numpy integers: the validity helpers accept them
    np_time = rng.random() < 0.2
    for j, t in enumerate(times):
        vals = {}
        for fi, name in enumerate(fields):
            def one(k):
                if hostile and rng.random() < 0.5:
                    return hostile_float(rng)
                return 1000.0 * (fi + 1) + 10.0 * k + t / 100.0 + uniq_base / 1e4 + 0.123456789
            if name == "position":
                vals[name] = np.array([one(0), one(1)], dtype=object if rng.random() < 0.0 else float)
            else:
                vals[name] = one(0)
        states.append(cls(time_step=(np.int64(t) if np_time else t), **vals))
        spec.append((t, {k: (list(map(float, v)) if k == "position" else v) for k, v in vals.items()}))
    return Trajectory(times[0], states), spec


def gen_pp_solution(rng, kind=None, pp_id=None, hostile=True, shuffle=False):
    from commonroad.common.solution import (CostFunction, PlanningProblemSolution, SupportedCostFunctions, VehicleModel,
                                            VehicleType)
    kind = kind or rng.choice(list(MODEL_FIELDS))
    if kind == "Input":
        model = rng.choice([VehicleModel.KS, VehicleModel.ST, VehicleModel.MB])
    elif kind == "PMInput":
        model = VehicleModel.PM
    else:
        model = VehicleModel[kind]
    vtype = rng.choice(list(VehicleType))
    cost = rng.choice(SupportedCostFunctions[model.name].value)
    pp_id = pp_id if pp_id is not None else rng.randint(0, 10 ** 5)
    traj, spec = gen_trajectory(rng, kind, uniq_base=pp_id % 97, hostile=hostile, shuffle=shuffle)
    pps = PlanningProblemSolution(pp_id, model, vtype, cost, traj)
    if rng.random() < 0.15:
        # the trajectory is a public attribute with a setter: the solution is first built with the OTHER admissible kind of
        # trajectory for its vehicle model (state trajectory <-> input vector) and then given the one it shall have
        other_kind = {"Input": model.name, "PMInput": "PM", "PM": "PMInput", "KS": "Input", "ST": "Input", "MB": "Input"}.get(kind)
        if other_kind is not None:
            traj0, _ = gen_trajectory(rng, other_kind, uniq_base=pp_id % 89, hostile=False)
            pps = PlanningProblemSolution(pp_id, model, vtype, cost, traj0)
            pps.trajectory = traj
            return pps, {"kind": kind, "model": model.name, "vtype": vtype.name, "cost": cost.name, "pp_id": pp_id,
                         "states": spec, "trajectory_reassigned_from": other_kind}
    return pps, {"kind": kind, "model": model.name, "vtype": vtype.name, "cost": cost.name, "pp_id": pp_id,
                 "states": spec}


def gen_solution(rng, kinds=None, hostile=True):
    from commonroad.common.solution import Solution
    from commonroad.scenario.scenario import ScenarioID
    f, _ = gen_scenario_id_fields(rng)
    n = len(kinds) if kinds else rng.choice([1, 1, 2, 3, 4])
    f["cooperative"] = n > 1 or f["cooperative"]
    sid = ScenarioID(**f)
    ids = rng.sample(range(1, 10 ** 4), n)
    pps, specs = [], []
    for i in range(n):
        p, s = gen_pp_solution(rng, kinds[i] if kinds else None, ids[i], hostile=hostile, shuffle=rng.random() < 0.3)
        pps.append(p)
        specs.append(s)
    meta = {}
    c = rng.random()
    if c < 0.7:
        meta["computation_time"] = rng.choice([0.5, 1, 12.345678901234567, 1e-5, 3e-7, 1e20, rng.uniform(1e-9, 1e4)])
        if rng.random() < 0.3:
            # a measured time is often a numpy scalar (the sum of per-step timings, a step count times dt)
            import numpy as np
            meta["computation_time"] = rng.choice([np.float64(rng.uniform(1e-4, 50.0)), np.sum(np.array([0.0125, 0.1344, 1e-4])),
                                                   np.int64(rng.randint(1, 90))])
    if rng.random() < 0.7:
        meta["processor_name"] = rng.choice(["Intel Core i7-8550U CPU @ 1.80GHz", "AMD <Ryzen> & \"co\" 'x'", "x",
                                             "M1 üß中", "a  b", "Intel(R) Core(TM) i7-8550U CPU @ 1.80GHz",
                                             "Intel(R) Xeon(R) Gold 6248R", " leading and trailing blank "])
    dkind = rng.choice(["default", "none", "explicit", "micro", "cleared", "midnight"])
    if dkind == "none":
        meta["date"] = None
    elif dkind == "explicit":
        meta["date"] = datetime.datetime(rng.randint(1990, 2090), rng.randint(1, 12), rng.randint(1, 28),
                                         rng.randint(0, 23), rng.randint(0, 59), rng.randint(0, 59))
    elif dkind == "midnight":
        # a date without a time of day (e.g. parsed from "2020-11-17")
        meta["date"] = datetime.datetime(rng.randint(1990, 2090), rng.randint(1, 12), rng.randint(1, 28))
    elif dkind == "micro":
        meta["date"] = datetime.datetime(2021, 3, 4, 5, 6, 7, rng.randint(1, 999999))
    sol = Solution(sid, pps, **meta)
    if dkind == "cleared":
        # the date is a plain public attribute: removed after construction, the solution has no date
        sol.date = None
        meta["date"] = None
    return sol, {"scenario_id": f, "pps": specs, "meta": {k: (v.isoformat() if hasattr(v, "isoformat") else v)
                                                          for k, v in meta.items()}, "date_kind": dkind}
