"""pytest plugin: runs the repository's own test-suite as an ADDITIONAL (ambient) workload with the contracts installed
in record-and-return-True mode.  Enabled with  -p vf.pytest_monitors ; environment:
   VERIF_AMBIENT_MONITORS  comma separated monitor modules (lookup,occupancy,rigid,goal,roundtrip)
   VERIF_AMBIENT_OUT       json file that receives {violations, counters, skipped}"""
import json
import os


class Recorder:
    def __init__(self):
        self.violations, self.counters, self.skipped_n, self.cur = {}, {}, 0, None

    def violation(self, key, msg, wit=None):
        v = self.violations.get(key)
        if v is None:
            self.violations[key] = {"count": 1, "msg": str(msg)[:1500], "test": self.cur}
        else:
            v["count"] += 1

    def counter(self, name, n=1):
        self.counters[name] = self.counters.get(name, 0) + n

    feature = counter

    def evaluation(self, n=1):
        self.counter("evaluations", n)

    def skipped(self, n=1):
        self.skipped_n += n


REC = Recorder()


def pytest_configure(config):
    if os.environ.get("COMMONROAD_IO_VERIF") != "1":
        return
    import importlib
    from vf import monitors
    monitors.set_sink(REC)
    for name in os.environ.get("VERIF_AMBIENT_MONITORS", "").split(","):
        if name:
            importlib.import_module("vf.monitors." + name).install()


def pytest_runtest_setup(item):
    REC.cur = item.nodeid


def pytest_sessionfinish(session, exitstatus):
    out = os.environ.get("VERIF_AMBIENT_OUT")
    if out:
        with open(out, "w") as f:
            json.dump({"violations": REC.violations, "counters": REC.counters, "skipped": REC.skipped_n}, f)
