"""File round-trip helpers around the real writer/reader."""
import contextlib
import io
import os
import uuid


def tmpdir():
    d = os.environ.get("VERIF_TMP") or "/tmp"
    os.makedirs(d, exist_ok=True)
    return d


def tmpfile(suffix):
    return os.path.join(tmpdir(), "f_%d_%s%s" % (os.getpid(), uuid.uuid4().hex[:8], suffix))


def write(scenario, pps=None, fmt="xml", precision=4, path=None, scenario_only=False, writer=None, **meta):
    from commonroad.common.file_writer import CommonRoadFileWriter, OverwriteExistingFile
    from commonroad.common.util import FileFormat
    from commonroad.planning.planning_problem import PlanningProblemSet
    from commonroad.scenario.scenario import Tag
    ff = FileFormat.XML if fmt == "xml" else FileFormat.PROTOBUF
    path = path or tmpfile(ff.value)
    if writer is None:
        kw = dict(author=scenario.author or "a", affiliation=scenario.affiliation or "b", source=scenario.source or "c",
                  tags=scenario.tags if scenario.tags is not None else {Tag.URBAN})
        kw.update(meta)
        writer = CommonRoadFileWriter(scenario, pps if pps is not None else PlanningProblemSet(),
                                      decimal_precision=precision, file_format=ff, **kw)
    with contextlib.redirect_stdout(io.StringIO()):
        if scenario_only:
            writer.write_scenario_to_file(path, OverwriteExistingFile.ALWAYS)
        else:
            writer.write_to_file(path, OverwriteExistingFile.ALWAYS)
    return path


def read(path, lanelet_assignment=False):
    from commonroad.common.file_reader import CommonRoadFileReader
    return CommonRoadFileReader(path).open(lanelet_assignment=lanelet_assignment)


def roundtrip(scenario, pps=None, fmt="xml", precision=6, lanelet_assignment=False, keep=False):
    p = write(scenario, pps, fmt, precision)
    try:
        return read(p, lanelet_assignment)
    finally:
        if not keep and os.path.exists(p):
            os.remove(p)
