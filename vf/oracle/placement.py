"""Independent placement of an obstacle shape at a state (C04), from raw public parameters and own trigonometry."""
import math

from vf.oracle import geom


def heading(state):
    """orientation of an exact state; point-mass states: atan2(vy, vx)"""
    if type(state).__name__ == "PMState" or (not hasattr(state, "orientation") or
                                               (getattr(state, "orientation", None) is None and
                                                getattr(state, "velocity_y", None) is not None)):
        vy, vx = getattr(state, "velocity_y", None), getattr(state, "velocity", None)
        if vy is None or vx is None:
            return None
        return math.atan2(vy, vx)
    return state.orientation


def place_desc(d, pos, theta):
    """shape description rotated about its own centre by theta, then translated by pos (documented local convention;
    identical to 'rotate about the origin and move to pos' for origin-centred shapes)"""
    if d[0] == "rect_params":
        c, l, w, phi = d[1]
        return ("rect", geom.rect_ring((c[0] + pos[0], c[1] + pos[1]), l, w, phi + theta))
    if d[0] == "circle":
        return ("circle", (d[1][0] + pos[0], d[1][1] + pos[1]), d[2])
    if d[0] == "poly":
        ring = d[1]
        c = geom.centroid(ring)
        out = []
        for v in ring:
            r = geom.rot((v[0] - c[0], v[1] - c[1]), theta)
            out.append((c[0] + r[0] + pos[0], c[1] + r[1] + pos[1]))
        return ("poly", out)
    if d[0] == "group":
        return ("group", [place_desc(x, pos, theta) for x in d[1]])
    raise TypeError(d[0])


def params(shape):
    """like geom.describe but rectangles keep their parameters (needed to add orientations)"""
    n = type(shape).__name__
    if n == "Rectangle":
        return ("rect_params", (tuple(map(float, shape.center)), float(shape.length), float(shape.width),
                                float(shape.orientation)))
    if n == "ShapeGroup":
        return ("group", [params(s) for s in shape.shapes])
    return geom.describe(shape)


def expected_occupancy_desc(shape, state):
    """for exact states"""
    th = heading(state)
    pos = tuple(map(float, state.position))
    return place_desc(params(shape), pos, float(th))


def desc_points(d, n_circle=16):
    """boundary sample points whose enclosure implies enclosure of the shape (vertices; circle: extreme points)"""
    if d[0] in ("rect", "poly"):
        return list(d[1])
    if d[0] == "circle":
        return [(d[1][0] + d[2] * math.cos(2 * math.pi * k / n_circle), d[1][1] + d[2] * math.sin(2 * math.pi * k / n_circle))
                for k in range(n_circle)]
    out = []
    for x in d[1]:
        out += desc_points(x, n_circle)
    return out


def in_rect_frame(p, center, l, w, phi, tol):
    """is p inside the rectangle (own trigonometry, rectangle frame), returns excess distance (<=0 inside)"""
    dx, dy = p[0] - center[0], p[1] - center[1]
    c, s = math.cos(-phi), math.sin(-phi)
    x, y = c * dx - s * dy, s * dx + c * dy
    return max(abs(x) - l / 2, abs(y) - w / 2) - tol


def region_sample_points(region, rng, n_random=6):
    """admissible positions of an uncertain position region: vertices/extremes + random interior points"""
    d = geom.describe(region)
    pts = []
    if d[0] in ("rect", "poly"):
        ring = d[1]
        pts += ring
        cx, cy = geom.centroid(ring)
        pts.append((cx, cy))
        for _ in range(n_random):
            # random convex combination of centroid and two consecutive vertices (inside for star-shaped/convex rings)
            k = rng.randrange(len(ring))
            a, b = ring[k], ring[(k + 1) % len(ring)]
            u, v = sorted((rng.random(), rng.random()))
            w0, w1, w2 = u, v - u, 1 - v
            pts.append((w0 * cx + w1 * a[0] + w2 * b[0], w0 * cy + w1 * a[1] + w2 * b[1]))
    elif d[0] == "circle":
        c, r = d[1], d[2]
        pts.append(c)
        for k in range(8):
            pts.append((c[0] + r * math.cos(k * math.pi / 4), c[1] + r * math.sin(k * math.pi / 4)))
        for _ in range(n_random):
            a, rr = rng.uniform(0, 2 * math.pi), r * math.sqrt(rng.random())
            pts.append((c[0] + rr * math.cos(a), c[1] + rr * math.sin(a)))
    else:
        raise TypeError(d[0])
    return pts
