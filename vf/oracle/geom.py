"""Independent planar geometry: truth is computed from raw parameters (vertices, centre, radius, length/width/angle)
with own code.  Float arithmetic with a guard band; exact rational arithmetic (fractions) on request for inputs on a
dyadic lattice, where boundary cases get an exact verdict.  shapely is never used here."""
import math
from fractions import Fraction as F

BAND = 1e-9
CIRCLE_REL_BAND = 0.002  # shapely discs are 64-gons: inward error r*(1-cos(pi/64)) = 0.0012 r; not judged


# ------------------------------------------------------------------------------------------------------ constructions
def rot(p, a):
    c, s = math.cos(a), math.sin(a)
    return (c * p[0] - s * p[1], s * p[0] + c * p[1])


def rect_ring(center, length, width, theta):
    """corners of the l-by-w box at its pose (open ring, 4 points)"""
    h = [(-length / 2, -width / 2), (-length / 2, width / 2), (length / 2, width / 2), (length / 2, -width / 2)]
    return [(center[0] + rot(q, theta)[0], center[1] + rot(q, theta)[1]) for q in h]


def open_ring(vertices):
    v = [(float(x), float(y)) for x, y in vertices]
    if len(v) > 1 and v[0] == v[-1]:
        v = v[:-1]
    return v


def lanelet_ring(la):
    """right boundary followed by the reversed left boundary"""
    r = [tuple(map(float, p)) for p in la.right_vertices]
    l = [tuple(map(float, p)) for p in la.left_vertices][::-1]
    return open_ring(r + l)


def shoelace_area(ring):
    return 0.5 * sum(ring[i][0] * ring[(i + 1) % len(ring)][1] - ring[(i + 1) % len(ring)][0] * ring[i][1]
                     for i in range(len(ring)))


def centroid(ring):
    a = shoelace_area(ring)
    cx = cy = 0.0
    n = len(ring)
    for i in range(n):
        x0, y0 = ring[i]
        x1, y1 = ring[(i + 1) % n]
        cr = x0 * y1 - x1 * y0
        cx += (x0 + x1) * cr
        cy += (y0 + y1) * cr
    return (cx / (6 * a), cy / (6 * a))


# ------------------------------------------------------------------------------------------------------------- float
def seg_dist(p, a, b):
    ax, ay = a
    bx, by = b
    dx, dy = bx - ax, by - ay
    d2 = dx * dx + dy * dy
    if d2 == 0:
        return math.hypot(p[0] - ax, p[1] - ay)
    t = ((p[0] - ax) * dx + (p[1] - ay) * dy) / d2
    t = 0.0 if t < 0 else 1.0 if t > 1 else t
    return math.hypot(p[0] - (ax + t * dx), p[1] - (ay + t * dy))


def boundary_dist(p, ring):
    n = len(ring)
    return min(seg_dist(p, ring[i], ring[(i + 1) % n]) for i in range(n))


def crossing_inside(p, ring):
    """even-odd rule (only trusted when p is clearly off the boundary)"""
    x, y = p
    inside = False
    n = len(ring)
    for i in range(n):
        x0, y0 = ring[i]
        x1, y1 = ring[(i + 1) % n]
        if (y0 > y) != (y1 > y):
            xi = x0 + (y - y0) * (x1 - x0) / (y1 - y0)
            if xi > x:
                inside = not inside
    return inside


def point_in_ring(p, ring, band=BAND, exact=False):
    """True / False / None (within band of the boundary and no exact verdict requested). Closed set: boundary is in."""
    d = boundary_dist(p, ring)
    scale = 1.0 + max(abs(p[0]), abs(p[1]))
    if d > band * scale:
        return crossing_inside(p, ring)
    if exact:
        return point_in_ring_exact(p, ring)
    return None


def signed_dist_point_ring(p, ring):
    d = boundary_dist(p, ring)
    return -d if crossing_inside(p, ring) else d


def _orient(a, b, c):
    return (b[0] - a[0]) * (c[1] - a[1]) - (b[1] - a[1]) * (c[0] - a[0])


def seg_seg_dist(a, b, c, d):
    if segments_cross_float(a, b, c, d):
        return 0.0
    return min(seg_dist(a, c, d), seg_dist(b, c, d), seg_dist(c, a, b), seg_dist(d, a, b))


def segments_cross_float(a, b, c, d):
    o1, o2, o3, o4 = _orient(a, b, c), _orient(a, b, d), _orient(c, d, a), _orient(c, d, b)
    return (o1 > 0) != (o2 > 0) and (o3 > 0) != (o4 > 0) and o1 != 0 and o2 != 0 and o3 != 0 and o4 != 0


def ring_ring_relation(A, B, band=BAND, exact=False):
    """True (closed sets intersect) / False / None (touching or nearly touching and no exact verdict)."""
    scale = 1.0 + max(max(abs(c) for p in A for c in p), max(abs(c) for p in B for c in p))
    bd = band * scale
    # clearly overlapping: a vertex of one clearly inside the other, or a clearly proper edge crossing
    for P, Q in ((A, B), (B, A)):
        for v in P:
            d = boundary_dist(v, Q)
            if d > bd and crossing_inside(v, Q):
                return True
    na, nb = len(A), len(B)
    mind = float("inf")
    for i in range(na):
        a, b = A[i], A[(i + 1) % na]
        for j in range(nb):
            c, d = B[j], B[(j + 1) % nb]
            if segments_cross_float(a, b, c, d):
                # proper crossing: clear if all four endpoints are clearly off the other segment
                if min(seg_dist(a, c, d), seg_dist(b, c, d), seg_dist(c, a, b), seg_dist(d, a, b)) > bd:
                    return True
                mind = 0.0
            else:
                mind = min(mind, seg_dist(a, c, d), seg_dist(b, c, d), seg_dist(c, a, b), seg_dist(d, a, b))
    if mind > bd:
        # boundaries clearly apart and no vertex clearly inside the other -> disjoint (containment would have placed
        # a vertex clearly inside, because boundaries are apart)
        return False
    if exact:
        return ring_ring_intersect_exact(A, B)
    return None


def dist_point_to_region(p, ring):
    """0 inside, else distance to the boundary"""
    return 0.0 if crossing_inside(p, ring) else boundary_dist(p, ring)


def circle_ring_relation(center, r, ring, band=BAND):
    d = boundary_dist(center, ring)
    if crossing_inside(center, ring) and d > band:
        return True
    # centre outside (or on the boundary): intersects iff d <= r
    tol = CIRCLE_REL_BAND * r + band * (1 + abs(center[0]) + abs(center[1]))
    if abs(d - r) <= tol:
        return None
    if d <= band:
        return True
    return d < r


def circle_circle_relation(c1, r1, c2, r2):
    d = math.hypot(c1[0] - c2[0], c1[1] - c2[1])
    tol = CIRCLE_REL_BAND * (r1 + r2) + BAND
    if abs(d - (r1 + r2)) <= tol:
        return None
    return d < r1 + r2


# ------------------------------------------------------------------------------------------------------------- exact
def _fr(ring):
    return [(F(x), F(y)) for x, y in ring]


def _on_seg_exact(p, a, b):
    if _orient(a, b, p) != 0:
        return False
    return min(a[0], b[0]) <= p[0] <= max(a[0], b[0]) and min(a[1], b[1]) <= p[1] <= max(a[1], b[1])


def point_in_ring_exact(p, ring):
    p = (F(p[0]), F(p[1]))
    R = _fr(ring)
    n = len(R)
    for i in range(n):
        if _on_seg_exact(p, R[i], R[(i + 1) % n]):
            return True
    x, y = p
    inside = False
    for i in range(n):
        x0, y0 = R[i]
        x1, y1 = R[(i + 1) % n]
        if (y0 > y) != (y1 > y):
            xi = x0 + (y - y0) * (x1 - x0) / (y1 - y0)
            if xi > x:
                inside = not inside
    return inside


def _seg_intersect_exact(a, b, c, d):
    o1, o2, o3, o4 = _orient(a, b, c), _orient(a, b, d), _orient(c, d, a), _orient(c, d, b)
    if ((o1 > 0 and o2 < 0) or (o1 < 0 and o2 > 0)) and ((o3 > 0 and o4 < 0) or (o3 < 0 and o4 > 0)):
        return True
    return (o1 == 0 and _on_seg_exact(c, a, b)) or (o2 == 0 and _on_seg_exact(d, a, b)) or \
        (o3 == 0 and _on_seg_exact(a, c, d)) or (o4 == 0 and _on_seg_exact(b, c, d))


def ring_ring_intersect_exact(A, B):
    FA, FB = _fr(A), _fr(B)
    na, nb = len(FA), len(FB)
    for i in range(na):
        for j in range(nb):
            if _seg_intersect_exact(FA[i], FA[(i + 1) % na], FB[j], FB[(j + 1) % nb]):
                return True
    return point_in_ring_exact(A[0], B) or point_in_ring_exact(B[0], A)


# --------------------------------------------------------------------------------------------- library-shape adapters
def describe(shape):
    """('rect', ring) | ('circle', c, r) | ('poly', ring) | ('group', [..]) from the PUBLIC parameters of a shape"""
    n = type(shape).__name__
    if n == "Rectangle":
        return ("rect", rect_ring(tuple(map(float, shape.center)), float(shape.length), float(shape.width),
                                  float(shape.orientation)))
    if n == "Circle":
        return ("circle", tuple(map(float, shape.center)), float(shape.radius))
    if n == "Polygon":
        return ("poly", open_ring(shape.vertices))
    if n == "ShapeGroup":
        return ("group", [describe(s) for s in shape.shapes])
    raise TypeError(n)


def desc_contains_point(d, p, exact=False):
    if d[0] in ("rect", "poly"):
        return point_in_ring(p, d[1], exact=exact)
    if d[0] == "circle":
        dist = math.hypot(p[0] - d[1][0], p[1] - d[1][1])
        if abs(dist - d[2]) <= BAND * (1 + d[2]):
            return None
        return dist < d[2]
    res = [desc_contains_point(s, p, exact) for s in d[1]]
    if any(r is True for r in res):
        return True
    return None if any(r is None for r in res) else False


def desc_ring_relation(d, ring, exact=False):
    """does shape description d intersect the polygon 'ring' (closed sets)"""
    if d[0] in ("rect", "poly"):
        return ring_ring_relation(d[1], ring, exact=exact)
    if d[0] == "circle":
        return circle_ring_relation(d[1], d[2], ring)
    res = [desc_ring_relation(s, ring, exact) for s in d[1]]
    if any(r is True for r in res):
        return True
    return None if any(r is None for r in res) else False


def desc_desc_relation(d1, d2, exact=False):
    if d1[0] == "group":
        res = [desc_desc_relation(s, d2, exact) for s in d1[1]]
    elif d2[0] == "group":
        res = [desc_desc_relation(d1, s, exact) for s in d2[1]]
    elif d1[0] == "circle" and d2[0] == "circle":
        return circle_circle_relation(d1[1], d1[2], d2[1], d2[2])
    elif d1[0] == "circle":
        return circle_ring_relation(d1[1], d1[2], d2[1])
    elif d2[0] == "circle":
        return circle_ring_relation(d2[1], d2[2], d1[1])
    else:
        return ring_ring_relation(d1[1], d2[1], exact=exact)
    if any(r is True for r in res):
        return True
    return None if any(r is None for r in res) else False


def rings_equal(A, B, tol=1e-9):
    """same polygon as vertex rings up to cyclic shift and direction"""
    A, B = open_ring(A), open_ring(B)
    if len(A) != len(B):
        return False
    n = len(A)
    if n == 0:
        return True
    sc = tol * (1 + max(abs(c) for p in A for c in p))
    for Bv in (B, B[::-1]):
        for s in range(n):
            if all(abs(A[i][0] - Bv[(i + s) % n][0]) <= sc and abs(A[i][1] - Bv[(i + s) % n][1]) <= sc for i in range(n)):
                return True
    return False


def desc_equal(d1, d2, tol=1e-9):
    if d1[0] == "group" or d2[0] == "group":
        return d1[0] == d2[0] and len(d1[1]) == len(d2[1]) and all(desc_equal(a, b, tol) for a, b in zip(d1[1], d2[1]))
    if d1[0] == "circle" or d2[0] == "circle":
        return d1[0] == d2[0] and abs(d1[2] - d2[2]) <= tol * (1 + d1[2]) and \
            math.hypot(d1[1][0] - d2[1][0], d1[1][1] - d2[1][1]) <= tol * (1 + abs(d1[1][0]) + abs(d1[1][1]))
    return rings_equal(d1[1], d2[1], tol)


def desc_halved(d):
    """the same description with every circle radius halved (classifier for the known buffer(radius/2) defect)"""
    if d[0] == "circle":
        return ("circle", d[1], d[2] / 2)
    if d[0] == "group":
        return ("group", [desc_halved(x) for x in d[1]])
    return d


def has_circle(d):
    return d[0] == "circle" or (d[0] == "group" and any(has_circle(x) for x in d[1]))
