"""Flat extraction of every spatial component (points, rings, angles, angle intervals, lengths) of a library object
through PUBLIC attributes, and the independently computed rigid motion of such an extraction (C05, C11)."""
import math

import numpy as np

from vf.oracle import geom

TWO_PI = 2 * math.pi


def _pt(p):
    return (float(p[0]), float(p[1]))


def extract(o, path="", out=None):
    """-> list of (path, kind, value); kinds: point, ring, angle, ainterval, length"""
    out = [] if out is None else out
    n = type(o).__name__
    if o is None:
        return out
    if n == "Rectangle":
        out += [(path + ".center", "point", _pt(o.center)), (path + ".orientation", "angle", float(o.orientation)),
                (path + ".length", "length", float(o.length)), (path + ".width", "length", float(o.width))]
    elif n == "Circle":
        out += [(path + ".center", "point", _pt(o.center)), (path + ".radius", "length", float(o.radius))]
    elif n == "Polygon":
        out.append((path + ".vertices", "ring", [_pt(v) for v in geom.open_ring(o.vertices)]))
    elif n == "ShapeGroup":
        for i, s in enumerate(o.shapes):
            extract(s, "%s.shapes[%d]" % (path, i), out)
    elif hasattr(o, "used_attributes") and hasattr(o, "time_step"):  # State
        pos = getattr(o, "position", None)
        if isinstance(pos, np.ndarray):
            out.append((path + ".position", "point", _pt(pos)))
        elif pos is not None:
            extract(pos, path + ".position", out)
        ori = getattr(o, "orientation", None)
        if n == "PMState":
            if o.velocity is not None and o.velocity_y is not None and (o.velocity != 0 or o.velocity_y != 0):
                out.append((path + ".heading(vx,vy)", "angle", math.atan2(o.velocity_y, o.velocity)))
                out.append((path + ".speed", "length", math.hypot(o.velocity, o.velocity_y)))
        elif ori is not None:
            if type(ori).__name__ == "AngleInterval":
                out.append((path + ".orientation", "ainterval", (float(ori.start), float(ori.end))))
            else:
                out.append((path + ".orientation", "angle", float(ori)))
    elif n == "Trajectory":
        for i, s in enumerate(o.state_list):
            extract(s, "%s.state_list[%d]" % (path, i), out)
    elif n == "Occupancy":
        extract(o.shape, path + ".shape", out)
    elif n == "SetBasedPrediction":
        for i, oc in enumerate(o.occupancy_set):
            extract(oc, "%s.occupancy_set[%d]" % (path, i), out)
    elif n == "TrajectoryPrediction":
        extract(o.trajectory, path + ".trajectory", out)
        # derived: the occupancy of every exact state next to the shape placed independently at that state ('derived'
        # entries are judged on their own: got occupancy == placement at the state the object has NOW; reading them
        # also fills the library's occupancy cache)
        from vf.oracle import placement
        for i, s in enumerate(o.trajectory.state_list):
            if not isinstance(getattr(s, "position", None), np.ndarray):
                # an uncertain position with an exact heading: the occupancy (a box in the heading frame around the region
                # and the shape) turns and moves with the region -- its corners are moved like stored points
                if getattr(s, "position", None) is not None and isinstance(getattr(s, "orientation", None), (int, float)):
                    try:
                        d_ = geom.describe(o.occupancy_at_time_step(s.time_step).shape)
                        if d_[0] == "rect":
                            out.append(("%s.trajectory.state_list[%d]~occupancy-around-region" % (path, i), "ring",
                                        [tuple(map(float, v)) for v in d_[1]]))
                    except Exception:  # noqa  (totality of occupancy queries is C04's business)
                        pass
                continue
            if type(s).__name__ != "PMState" and not isinstance(getattr(s, "orientation", None), (int, float)):
                continue
            try:
                oc = o.occupancy_at_time_step(s.time_step)
                val = (geom.describe(oc.shape), placement.expected_occupancy_desc(o.shape, s))
            except Exception:  # noqa  (totality of occupancy queries is C04's business)
                continue
            out.append(("%s.trajectory.state_list[%d]~occupancy" % (path, i), "derived", val))
    elif n in ("StaticObstacle", "DynamicObstacle"):
        extract(o.initial_state, path + ".initial_state", out)
        # derived: the occupancy at the initial time step next to the shape placed independently at the CURRENT initial state
        s0 = o.initial_state
        if isinstance(getattr(s0, "position", None), np.ndarray) and isinstance(getattr(s0, "orientation", None),
                                                                                (int, float)):
            from vf.oracle import placement
            try:
                oc = o.occupancy_at_time(s0.time_step)
                val = (geom.describe(oc.shape), placement.expected_occupancy_desc(o.obstacle_shape, s0))
                out.append((path + ".initial_state~occupancy", "derived", val))
            except Exception:  # noqa  (totality of occupancy queries is C04's business)
                pass
        if n == "DynamicObstacle":
            extract(o.prediction, path + ".prediction", out)
    elif n == "PhantomObstacle":
        extract(o.prediction, path + ".prediction", out)
    elif n == "EnvironmentObstacle":
        extract(o.obstacle_shape, path + ".obstacle_shape", out)
    elif n == "StopLine":
        if o.start is not None and o.end is not None:  # start and end are optional
            out += [(path + ".start", "point", _pt(o.start)), (path + ".end", "point", _pt(o.end))]
    elif n == "Lanelet":
        for a in ("left_vertices", "center_vertices", "right_vertices"):
            for i, v in enumerate(getattr(o, a)):
                out.append(("%s.%s[%d]" % (path, a, i), "point", _pt(v)))
        # the lanelet's polygon (the region the lanelet covers: "polygon areas", look-ups) is moved with the boundaries
        pg = getattr(o, "polygon", None)
        if pg is not None and np.asarray(o.left_vertices).shape[1] == 2:
            for i, v in enumerate(np.asarray(pg.vertices)[:-1] if np.allclose(pg.vertices[0], pg.vertices[-1]) else
                                  np.asarray(pg.vertices)):
                out.append(("%s.polygon.vertices[%d]" % (path, i), "point", _pt(v)))
        extract(o.stop_line, path + ".stop_line", out)
    elif n in ("TrafficSign", "TrafficLight"):
        if o.position is not None:
            out.append((path + ".position", "point", _pt(o.position)))
    elif n == "LaneletNetwork":
        for la in o.lanelets:
            extract(la, "%s.lanelet[%d]" % (path, la.lanelet_id), out)
        for s in o.traffic_signs:
            extract(s, "%s.sign[%d]" % (path, s.traffic_sign_id), out)
        for s in o.traffic_lights:
            extract(s, "%s.light[%d]" % (path, s.traffic_light_id), out)
    elif n == "Scenario":
        extract(o.lanelet_network, path + ".lanelet_network", out)
        for ob in o.obstacles:
            extract(ob, "%s.obstacle[%d]" % (path, ob.obstacle_id), out)
    elif n == "GoalRegion":
        for i, s in enumerate(o.state_list):
            extract(s, "%s.state_list[%d]" % (path, i), out)
    elif n == "PlanningProblem":
        extract(o.initial_state, path + ".initial_state", out)
        extract(o.goal, path + ".goal", out)
    elif n == "PlanningProblemSet":
        for k, p in o.planning_problem_dict.items():
            extract(p, "%s.pp[%d]" % (path, k), out)
    else:
        raise TypeError("extract: unsupported " + n)
    return out


def move_point(p, t, a):
    c, s = math.cos(a), math.sin(a)
    x, y = p[0] + t[0], p[1] + t[1]
    return (c * x - s * y, s * x + c * y)


def moved(items, t, a):
    out = []
    for path, kind, v in items:
        if kind == "point":
            out.append((path, kind, move_point(v, t, a)))
        elif kind == "ring":
            out.append((path, kind, [move_point(p, t, a) for p in v]))
        elif kind == "angle":
            out.append((path, kind, v + a))
        elif kind == "ainterval":
            out.append((path, kind, (v[0] + a, v[1] + a)))
        else:
            out.append((path, kind, v))
    return out


def angle_close(x, y, tol=1e-9):
    return abs(math.remainder(x - y, TWO_PI)) <= tol


def compare(expected, got, scale_extra=0.0, tol=1e-9):
    """-> list of (path, kind, expected, got) mismatches; None-path entry when the structure differs"""
    if [(p, k) for p, k, _ in expected] != [(p, k) for p, k, _ in got]:
        ep, gp = {p for p, _, _ in expected}, {p for p, _, _ in got}
        return [("<structure>", "structure", sorted(ep - gp)[:5], sorted(gp - ep)[:5])]
    bad = []
    for (path, kind, e), (_, _, g) in zip(expected, got):
        if kind == "point":
            sc = tol * (1 + abs(e[0]) + abs(e[1]) + scale_extra)
            if abs(e[0] - g[0]) > sc or abs(e[1] - g[1]) > sc:
                bad.append((path, kind, e, g))
        elif kind == "ring":
            if not geom.rings_equal(e, g, tol * (1 + scale_extra)):
                bad.append((path, kind, e[:3], g[:3]))
        elif kind == "derived":
            if not geom.desc_equal(g[0], g[1], 1e-7):
                bad.append((path, kind, g[1], g[0]))
        elif kind == "angle":
            if not angle_close(e, g, tol * 10):
                bad.append((path, kind, e, g))
        elif kind == "ainterval":
            if not angle_close(e[0], g[0], tol * 10) or abs((e[1] - e[0]) - (g[1] - g[0])) > tol * 10:
                bad.append((path, kind, e, g))
        else:
            if abs(e - g) > tol * (1 + abs(e)):
                bad.append((path, kind, e, g))
    return bad


def rigid_invariants(items):
    """pairwise distances between the first points (bounded), ring areas, lengths"""
    pts = [v for _, k, v in items if k == "point"][:14]
    d = [math.hypot(pts[i][0] - pts[j][0], pts[i][1] - pts[j][1]) for i in range(len(pts)) for j in range(i)]
    areas = [abs(geom.shoelace_area(v)) for _, k, v in items if k == "ring"]
    lens = [v for _, k, v in items if k == "length"]
    return d + areas + lens
