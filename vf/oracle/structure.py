"""Structural snapshot of scenarios / planning-problem sets through PUBLIC attributes, and a comparator that never uses
the library's __eq__.  Used by the round-trip monitors (C01, C02, C15) and by the read-only monitor (C18).

snap_*  -> nested plain python (dict / list / tuple / str / int / float / None) with tagged leaves:
           ("f", float) real, ("i", int), ("s", str), ("b", bool), ("e", enum name), ("n",) None
diff(a, b, real_ok) -> list of (path, a, b) where the two snapshots differ; real_ok(x, y) decides reals."""
import math

import numpy as np


def f(x):
    return ("f", float(x))


def leaf(v):
    if v is None:
        return ("n",)
    if isinstance(v, (bool, np.bool_)):
        return ("b", bool(v))
    if isinstance(v, (int, np.integer)):
        return ("i", int(v))
    if isinstance(v, (float, np.floating)):
        return ("f", float(v))
    if isinstance(v, str):
        return ("s", v)
    if hasattr(v, "name") and hasattr(v, "value"):
        return ("e", v.name)
    raise TypeError("leaf: %r" % type(v))


def num(v):
    """numeric attribute values: ints stay ints only for time steps; everything else is compared as a real"""
    return ("f", float(v))


def snap_shape(s):
    n = type(s).__name__
    if n == "Rectangle":
        return {"kind": "rect", "length": f(s.length), "width": f(s.width), "cx": f(s.center[0]), "cy": f(s.center[1]),
                "orientation": f(s.orientation)}
    if n == "Circle":
        return {"kind": "circle", "radius": f(s.radius), "cx": f(s.center[0]), "cy": f(s.center[1])}
    if n == "Polygon":
        return {"kind": "poly", "vertices": [[f(p[0]), f(p[1])] for p in s.vertices]}
    if n == "ShapeGroup":
        return {"kind": "group", "shapes": [snap_shape(x) for x in s.shapes]}
    raise TypeError(n)


def snap_value(name, v):
    n = type(v).__name__
    if v is None:
        return ("n",)
    if n == "AngleInterval":
        return {"kind": "ainterval", "start": f(v.start), "end": f(v.end)}
    if n == "Interval":
        if name == "time_step":
            return {"kind": "interval-int", "start": leaf(v.start), "end": leaf(v.end)}
        return {"kind": "interval", "start": f(v.start), "end": f(v.end)}
    if isinstance(v, np.ndarray):
        return {"kind": "point", "xy": [f(c) for c in v]}
    if hasattr(v, "contains_point"):
        return snap_shape(v)
    if name == "time_step":
        return leaf(v)
    if isinstance(v, (int, float, np.integer, np.floating)) and not isinstance(v, bool):
        return num(v)
    return leaf(v)


def snap_state(s, with_class=False):
    if s is None:
        return ("n",)
    d = {"attrs": {a: snap_value(a, getattr(s, a)) for a in s.attributes if getattr(s, a) is not None}}
    if with_class:
        d["class"] = type(s).__name__
        d["declared"] = sorted(s.attributes)
    return d


SIGNAL_SLOTS = ["horn", "indicator_left", "indicator_right", "braking_lights", "hazard_warning_lights",
                "flashing_blue_lights", "time_step"]


def snap_signal(s):
    if s is None:
        return ("n",)
    return {k: leaf(getattr(s, k)) for k in SIGNAL_SLOTS if hasattr(s, k)}


def idlist(x):
    """None == empty for optional id sets"""
    return sorted(int(i) for i in x) if x else []


def snap_stop_line(sl):
    if sl is None:
        return ("n",)
    return {"start": [f(c) for c in sl.start] if sl.start is not None else ("n",),
            "end": [f(c) for c in sl.end] if sl.end is not None else ("n",), "line_marking": leaf(sl.line_marking),
            "traffic_sign_ref": idlist(sl.traffic_sign_ref), "traffic_light_ref": idlist(sl.traffic_light_ref)}


def snap_lanelet(la, derived=False):
    d = {"left": [[f(p[0]), f(p[1])] for p in la.left_vertices], "right": [[f(p[0]), f(p[1])] for p in la.right_vertices],
         "line_marking_left": leaf(la.line_marking_left_vertices), "line_marking_right": leaf(la.line_marking_right_vertices),
         "predecessor": idlist(la.predecessor), "successor": idlist(la.successor),
         "adj_left": leaf(la.adj_left), "adj_left_same_direction": leaf(la.adj_left_same_direction),
         "adj_right": leaf(la.adj_right), "adj_right_same_direction": leaf(la.adj_right_same_direction),
         "stop_line": snap_stop_line(la.stop_line), "lanelet_type": sorted(t.name for t in la.lanelet_type),
         "user_one_way": sorted(t.name for t in la.user_one_way),
         "user_bidirectional": sorted(t.name for t in la.user_bidirectional),
         "traffic_signs": idlist(la.traffic_signs), "traffic_lights": idlist(la.traffic_lights)}
    if derived:  # C18: everything observable, also derived / registry data
        d["center"] = [[f(p[0]), f(p[1])] for p in la.center_vertices]
        d["adjacent_areas"] = idlist(la.adjacent_areas)
        d["static_obstacles_on_lanelet"] = idlist(la.static_obstacles_on_lanelet)
        d["dynamic_obstacles_on_lanelet"] = {str(k): idlist(v) for k, v in sorted(la.dynamic_obstacles_on_lanelet.items())}
        d["predecessor_order"] = [int(x) for x in la.predecessor]
        d["successor_order"] = [int(x) for x in la.successor]
        d["polygon"] = snap_shape(la.polygon)
    return d


def snap_sign(s, first_occurrence=True):
    d = {"elements": sorted(([e.traffic_sign_element_id.name, [str(v) for v in e.additional_values]]
                             for e in s.traffic_sign_elements), key=repr),
         "position": [f(c) for c in s.position] if s.position is not None else ("n",), "virtual": leaf(s.virtual)}
    if first_occurrence:
        d["first_occurrence"] = idlist(s.first_occurrence)
    return d


def snap_light(tl, derived=False):
    c = tl.traffic_light_cycle
    d = {"cycle": [[e.state.name, int(e.duration)] for e in c.cycle_elements] if c is not None else ("n",),
         "time_offset": leaf(c.time_offset) if c is not None else ("n",),
         "position": [f(x) for x in tl.position] if tl.position is not None else ("n",),
         "direction": leaf(tl.direction), "active": leaf(tl.active)}
    if derived:
        d["color"] = [x.name for x in tl.color]
        d["cycle_active"] = leaf(c.active) if c is not None else ("n",)
    return d


def snap_intersection(x):
    return {"incomings": {str(i.incoming_id): {"incoming_lanelets": idlist(i.incoming_lanelets),
                                               "successors_right": idlist(i.successors_right),
                                               "successors_straight": idlist(i.successors_straight),
                                               "successors_left": idlist(i.successors_left),
                                               "left_of": leaf(i.left_of)} for i in x.incomings},
            "crossings": idlist(x.crossings)}


def snap_prediction(p, derived=False):
    if p is None:
        return ("n",)
    n = type(p).__name__
    if n == "SetBasedPrediction":
        return {"kind": "set", "occupancies": [{"time_step": snap_value("time_step", o.time_step),
                                                "shape": snap_shape(o.shape)} for o in p.occupancy_set]}
    d = {"kind": "trajectory", "states": [snap_state(s, with_class=derived) for s in p.trajectory.state_list]}
    if derived:
        d["initial_time_step"] = leaf(p.trajectory.initial_time_step)
        d["shape"] = snap_shape(p.shape)
        d["center_lanelet_assignment"] = snap_assignment(p.center_lanelet_assignment)
        d["shape_lanelet_assignment"] = snap_assignment(p.shape_lanelet_assignment)
    return d


def snap_assignment(a):
    if a is None:
        return ("n",)
    return {str(k): idlist(v) for k, v in sorted(a.items())}


def snap_obstacle(o, derived=False, signals=True):
    role = o.obstacle_role.name
    d = {"role": role}
    if role in ("STATIC", "DYNAMIC"):
        d.update({"type": leaf(o.obstacle_type), "shape": snap_shape(o.obstacle_shape),
                  "initial_state": snap_state(o.initial_state, with_class=derived)})
        if signals:
            d["initial_signal_state"] = snap_signal(o.initial_signal_state)
            d["signal_series"] = [snap_signal(s) for s in (o.signal_series or [])]
        if derived:
            d["initial_center_lanelet_ids"] = ("n",) if o.initial_center_lanelet_ids is None else idlist(
                o.initial_center_lanelet_ids)
            d["initial_shape_lanelet_ids"] = ("n",) if o.initial_shape_lanelet_ids is None else idlist(
                o.initial_shape_lanelet_ids)
            d["signal_series_is_none"] = leaf(o.signal_series is None)
    if role == "DYNAMIC":
        d["prediction"] = snap_prediction(o.prediction, derived)
        if derived:
            d["history"] = [snap_state(s, True) for s in o.history]
    elif role == "Phantom":
        d["prediction"] = snap_prediction(o.prediction, derived)
    elif role == "ENVIRONMENT":
        d.update({"type": leaf(o.obstacle_type), "shape": snap_shape(o.obstacle_shape)})
    return d


def snap_location(loc):
    if loc is None:
        return ("n",)
    g, e = loc.geo_transformation, loc.environment
    return {"geo_name_id": leaf(loc.geo_name_id), "gps_latitude": f(loc.gps_latitude), "gps_longitude": f(loc.gps_longitude),
            "geo_transformation": ("n",) if g is None else {"geo_reference": leaf(g.geo_reference),
                                                            "x_translation": f(g.x_translation),
                                                            "y_translation": f(g.y_translation),
                                                            "z_rotation": f(g.z_rotation), "scaling": f(g.scaling)},
            "environment": ("n",) if e is None else {"time": ("n",) if e.time is None else [leaf(e.time.hours),
                                                                                           leaf(e.time.minutes)] + (
                [leaf(getattr(e.time, "day", None)), leaf(getattr(e.time, "month", None)), leaf(getattr(e.time, "year", None))]
                if any(getattr(e.time, a_, None) is not None for a_ in ("day", "month", "year")) else []),
                                                     "time_of_day": leaf(e.time_of_day), "weather": leaf(e.weather),
                                                     "underground": leaf(e.underground)}}


def snap_scenario_id(s):
    p = s.prediction_id
    return {"cooperative": leaf(s.cooperative), "country_id": leaf(s.country_id), "map_name": leaf(s.map_name),
            "map_id": leaf(s.map_id), "configuration_id": leaf(s.configuration_id),
            "obstacle_behavior": leaf(s.obstacle_behavior),
            "prediction_id": [int(x) for x in p] if isinstance(p, list) else leaf(p)}


def snap_scenario(sc, derived=False, first_occurrence=True, static_signals=True, header=True):
    net = sc.lanelet_network
    d = {"lanelets": {str(la.lanelet_id): snap_lanelet(la, derived) for la in net.lanelets},
         "signs": {str(s.traffic_sign_id): snap_sign(s, first_occurrence) for s in net.traffic_signs},
         "lights": {str(s.traffic_light_id): snap_light(s, derived) for s in net.traffic_lights},
         "intersections": {str(s.intersection_id): snap_intersection(s) for s in net.intersections},
         "obstacles": {str(o.obstacle_id): snap_obstacle(o, derived, signals=static_signals or
                                                         o.obstacle_role.name != "STATIC") for o in sc.obstacles}}
    if header:
        d.update({"dt": f(sc.dt), "scenario_id": snap_scenario_id(sc.scenario_id), "author": leaf(sc.author),
                  "affiliation": leaf(sc.affiliation), "source": leaf(sc.source),
                  "tags": sorted(t.name for t in sc.tags) if sc.tags is not None else ("n",),
                  "location": snap_location(sc.location)})
    if derived:
        d["obstacle_order"] = [int(o.obstacle_id) for o in sc.obstacles]
        d["lanelet_order"] = [int(la.lanelet_id) for la in net.lanelets]
        d["areas"] = sorted(int(a.area_id) for a in net.areas)
    return d


def snap_pps(pps, derived=False):
    out = {}
    for pid, pp in pps.planning_problem_dict.items():
        g = pp.goal
        gl = g.lanelets_of_goal_position
        lan = {} if gl is None else {str(k): [int(x) for x in v] for k, v in gl.items() if len(v) > 0 or derived}
        goals = []
        for idx, s in enumerate(g.state_list):
            gs = snap_state(s, with_class=derived)
            if str(idx) in lan and not derived:
                gs["attrs"].pop("position", None)  # derived from the referenced lanelets
                gs["position_from_lanelets"] = True
            goals.append(gs)
        d = {"initial_state": snap_state(pp.initial_state, with_class=derived), "goal_states": goals, "goal_lanelets": lan}
        if derived:
            d["goal_lanelets_container"] = ("s", type(gl).__name__)
        out[str(pid)] = d
    return out


# ------------------------------------------------------------------------------------------------------------ compare
def real_ok_xml(decimals):
    bound = 10.0 ** (-decimals)

    def ok(a, b):
        return abs(a - b) < bound
    return ok


def real_ok_bits(a, b):
    return a == b and math.copysign(1, a) == math.copysign(1, b)


def real_ok_tol(tol=1e-9):
    def ok(a, b):
        return abs(a - b) <= tol * (1 + abs(a))
    return ok


def diff(a, b, real_ok, path="", out=None, limit=40):
    out = [] if out is None else out
    if len(out) >= limit:
        return out
    if isinstance(a, dict) and isinstance(b, dict):
        for k in sorted(set(a) | set(b)):
            if k not in a:
                out.append((path + "/" + k, "<absent>", _short(b[k])))
            elif k not in b:
                out.append((path + "/" + k, _short(a[k]), "<absent>"))
            else:
                diff(a[k], b[k], real_ok, path + "/" + k, out, limit)
    elif isinstance(a, list) and isinstance(b, list):
        if len(a) != len(b):
            out.append((path + "/<len>", len(a), len(b)))
        else:
            for i, (x, y) in enumerate(zip(a, b)):
                diff(x, y, real_ok, "%s[%d]" % (path, i), out, limit)
    elif isinstance(a, tuple) and isinstance(b, tuple) and a and b and a[0] == "f" and b[0] == "f":
        if not real_ok(a[1], b[1]):
            out.append((path, a[1], b[1]))
    elif a != b:
        out.append((path, _short(a), _short(b)))
    return out


def _short(x):
    s = repr(x)
    return s if len(s) < 160 else s[:157] + "..."


def generalise(path):
    import re
    p = re.sub(r"\[\d+\]", "[]", path)
    p = re.sub(r"/(lanelets|signs|lights|intersections|obstacles|incomings)/\d+", r"/\1/*", p)
    p = re.sub(r"/pps/\d+", "/pps/*", p)
    p = re.sub(r"/goal_lanelets/\d+", "/goal_lanelets/*", p)
    return p
