"""Reference side of C15: a FRESH writer with the given arguments used in ISOLATION in a clean process.

    python -m vf.c15_ref <scenario_seed> <fmt> <precision> <method> <outfile>
prints nothing; writes the normalised bytes to <outfile>."""
import os
import random
import sys


def build(seed):
    from vf.gen.scenarios import ScenarioGen
    # fixed, deterministic scenario with 12-digit fractions; the same in every process (same PYTHONHASHSEED)
    sc, pps = ScenarioGen(random.Random(seed), seed, "pb", hostile=True, max_lanelets=4, max_obstacles=4).build()
    # collections whose ORDER is the user's: a fork listed in descending id order (a writer that re-orders what it is given
    # changes what the next writer sees)
    lls = sc.lanelet_network.lanelets
    if len(lls) >= 3:
        others = sorted((la.lanelet_id for la in lls[1:]), reverse=True)
        lls[0].successor = list(others)
        lls[0].predecessor = list(others)
    if seed % 3 == 1 and lls:
        # a network that was cut out of a larger one WITHOUT cleaning ids (create_from_lanelet_network(cleanup_ids=False)):
        # a lanelet still names a sign and a light that are not part of this network
        lls[0].add_traffic_sign_to_lanelet(987654)
        lls[-1].add_traffic_light_to_lanelet(987655)
    if seed % 2 == 0:
        # a scenario that came from a file of the older supported format version carries that version in its id
        sc.scenario_id.scenario_version = "2018b"
    return sc, pps


def normalise(data, fmt):
    """date stamps removed"""
    import re
    if fmt == "xml":
        return re.sub(rb'date="[^"]*"', b'date="X"', data)
    from commonroad.scenario_definition.protobuf_format.generated_scripts import commonroad_pb2
    m = commonroad_pb2.CommonRoad()
    m.ParseFromString(data)
    m.information.ClearField("date")
    return m.SerializePartialToString(deterministic=True)


def write(writer, method, path):
    import contextlib
    import io
    from commonroad.common.file_writer import OverwriteExistingFile
    with contextlib.redirect_stdout(io.StringIO()):
        if method == "scenario":
            writer.write_scenario_to_file(path, OverwriteExistingFile.ALWAYS)
        elif method == "full-checked":
            # the optional validity check looks at the document, it does not change what is written
            writer.write_to_file(path, OverwriteExistingFile.ALWAYS, check_validity=True)
        else:
            writer.write_to_file(path, OverwriteExistingFile.ALWAYS)


def make_writer(sc, pps, fmt, precision):
    from commonroad.common.file_writer import CommonRoadFileWriter
    from commonroad.common.util import FileFormat
    return CommonRoadFileWriter(sc, pps, decimal_precision=precision,
                                file_format=FileFormat.XML if fmt == "xml" else FileFormat.PROTOBUF)


def main(argv):
    repo = os.environ.get("VERIF_REPO", "/repo")
    sys.path.insert(0, repo)
    seed, fmt, precision, method, out = int(argv[0]), argv[1], int(argv[2]), argv[3], argv[4]
    sc, pps = build(seed)
    w = make_writer(sc, pps, fmt, precision)
    tmp = out + (".xml" if fmt == "xml" else ".pb")
    write(w, method, tmp)
    with open(tmp, "rb") as f:
        data = f.read()
    os.remove(tmp)
    with open(out, "wb") as f:
        f.write(normalise(data, fmt))


if __name__ == "__main__":
    main(sys.argv[1:])
