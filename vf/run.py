"""Check runner: tiers, seeds, sharding, watchdog, three-valued verdict, evidence writer, known-findings filter.

    python -m vf.run Cxx quick|thorough            (parent: spawns shard processes, merges, decides)
    python -m vf.run Cxx <tier> --shard i/N --out f (child: runs the workload of one shard)
    python -m vf.run Cxx --replay <witness.json>    (re-runs the single case named in a witness)
"""
import hashlib
import importlib
import json
import os
import random
import re
import subprocess
import sys
import time
import traceback

VERIF = os.path.dirname(os.path.dirname(os.path.abspath(__file__)))
REPO = os.environ.get("VERIF_REPO", "/repo")
GUARD = "COMMONROAD_IO_VERIF"
MAX_FP = 400000


def _setup_path():
    if REPO not in sys.path:
        sys.path.insert(0, REPO)
    deps = os.path.join(VERIF, ".deps")
    if deps not in sys.path:
        sys.path.append(deps)


def stable_hash(obj) -> int:
    s = obj if isinstance(obj, str) else json.dumps(obj, sort_keys=True, default=repr)
    return int.from_bytes(hashlib.blake2b(s.encode(), digest_size=8).digest(), "big")


class Inconclusive(Exception):
    pass


class Ctx:
    """Handed to a check module's run(ctx). Collects what the monitors observed."""

    def __init__(self, prop, tier, seed, shard=0, nshards=1, only=None):
        self.prop, self.tier, self.seed, self.shard, self.nshards = prop, tier, seed, shard, nshards
        self.only = only  # (section, index) for replay
        self.evaluations = 0
        self.fps = set()
        self.features = {}
        self.counters = {}
        self.samples = []
        self.violations = {}  # key -> dict(count, msg, witness)
        self.skipped_band = 0
        self.notes = {}
        self.t0 = time.time()
        self.cur = None  # (section, index) of the running case

    @property
    def quick(self):
        return self.tier == "quick"

    def pick(self, quick, thorough):
        return quick if self.tier == "quick" else thorough

    def rng_for(self, *key):
        return random.Random(stable_hash([self.seed, self.prop, list(map(str, key))]))

    def cases(self, section, n):
        """Indexed cases of a section; every case has its own rng so that shards and replays are independent."""
        for i in range(n):
            if self.only is not None:
                if [section, i] != list(self.only):
                    continue
            elif i % self.nshards != self.shard:
                continue
            self.cur = (section, i)
            yield i, self.rng_for(section, i)
        self.cur = None

    def owns(self, section, i):
        if self.only is not None:
            return [section, i] == list(self.only)
        return i % self.nshards == self.shard

    def evaluation(self, n=1):
        self.evaluations += n

    def fingerprint(self, obj):
        if len(self.fps) < MAX_FP:
            self.fps.add(stable_hash(obj))

    def feature(self, name, n=1):
        self.features[name] = self.features.get(name, 0) + n

    def counter(self, name, n=1):
        self.counters[name] = self.counters.get(name, 0) + n

    def skipped(self, n=1):
        self.skipped_band += n

    def sample(self, obj, limit=4):
        if len(self.samples) < limit:
            self.samples.append(json.loads(json.dumps(obj, default=repr)))

    def note(self, k, v):
        self.notes[k] = v

    def violation(self, key, msg, witness=None):
        """key = mechanism key (call site + failing condition), never a case hash."""
        m = re.match(r"^(C\d{2,3})/", key)
        if m and m.group(1) != self.prop:
            # a shared monitor reported for another property: that property's own check decides it
            self.counters["foreign." + m.group(1)] = self.counters.get("foreign." + m.group(1), 0) + 1
            return
        v = self.violations.get(key)
        if v is None:
            w = {"case": list(self.cur) if self.cur else None, "detail": witness}
            self.violations[key] = {"count": 1, "msg": str(msg)[:2000],
                                    "witness": json.loads(json.dumps(w, default=repr))}
        else:
            v["count"] += 1

    def dump(self):
        return {
            "evaluations": self.evaluations, "fps": sorted(self.fps), "features": self.features,
            "counters": self.counters, "samples": self.samples, "violations": self.violations,
            "skipped_band": self.skipped_band, "notes": self.notes, "wall_s": time.time() - self.t0,
        }


# ---------------------------------------------------------------------------------------------- anchors (sys.monitoring)
def install_anchor_counter(anchors, hits):
    """Counts entries (PY_START) into the anchored functions of the tree under test; everything else is DISABLEd
    after its first event, so the cost is negligible."""
    mon = getattr(sys, "monitoring", None)
    if mon is None or not anchors:
        return
    tool = 3
    try:
        mon.use_tool_id(tool, "verif-anchors")
    except ValueError:
        return
    wanted = set(anchors)
    prefix = os.path.join(REPO, "commonroad")

    def on_start(code, offset):
        if code.co_filename.startswith(prefix) and code.co_qualname in wanted:
            hits[code.co_qualname] = hits.get(code.co_qualname, 0) + 1
            return None
        return mon.DISABLE

    mon.register_callback(tool, mon.events.PY_START, on_start)
    mon.set_events(tool, mon.events.PY_START)


# ------------------------------------------------------------------------------------------------------------- child
def child_main(prop, tier, seed, shard, nshards, out, only=None):
    _setup_path()
    assert os.environ.get(GUARD) == "1", "instrumentation guard not set"
    import commonroad
    assert os.path.abspath(commonroad.__file__).startswith(os.path.abspath(REPO)), (commonroad.__file__, REPO)
    mod = importlib.import_module("vf.checks." + prop)
    ctx = Ctx(prop, tier, seed, shard, nshards, only)
    hits = {}
    install_anchor_counter(getattr(mod, "ANCHORS", []), hits)
    status = "ok"
    cov = None
    if os.environ.get("VERIF_COVERAGE"):  # diagnostics only (tools/coverage.sh): which library lines the workload reaches
        import coverage
        cov = coverage.Coverage(data_file=os.path.join(os.environ["VERIF_COVERAGE"], "cov"), data_suffix=True,
                                source=[os.path.join(REPO, "commonroad")])
        cov.start()
    try:
        mod.run(ctx)
    except Inconclusive as e:
        status = "inconclusive: %s" % e
    except Exception:
        status = "harness-error"
        ctx.note("harness_traceback", traceback.format_exc()[-4000:])
    if cov is not None:
        cov.stop()
        cov.save()
    res = ctx.dump()
    res["anchor_hits"] = hits
    res["status"] = status
    with open(out, "w") as f:
        json.dump(res, f)


# ------------------------------------------------------------------------------------------------------------ parent
def tree_id():
    try:
        head = subprocess.run(["git", "-C", REPO, "rev-parse", "HEAD"], capture_output=True, text=True).stdout.strip()
        diff = subprocess.run(["git", "-C", REPO, "diff", "HEAD", "--", "commonroad"], capture_output=True).stdout
        return {"head": head, "diff_sha": hashlib.sha1(diff).hexdigest()[:12], "dirty": bool(diff), "path": REPO}
    except Exception:
        return {"path": REPO}


def load_known(prop):
    p = os.path.join(VERIF, "known_findings.json")
    if not os.path.exists(p):
        return {}
    with open(p) as f:
        data = json.load(f)
    return {e["key"]: e for e in data.get("findings", []) if e["property"] == prop}


def parent_main(prop, tier, seed, replay=None):
    _setup_path()
    t0 = time.time()
    mod = importlib.import_module("vf.checks." + prop)
    only = None
    if replay:
        with open(replay) as f:
            w = json.load(f)
        tier, seed, only = w.get("tier", tier), w.get("seed", seed), w["witness"]["case"]
    nshards = 1 if only else getattr(mod, "SHARDS", {}).get(tier, 1 if tier == "quick" else 16)
    timeout = getattr(mod, "TIMEOUT", {}).get(tier, 1500 if tier == "quick" else 7200)
    import tempfile
    tmp = tempfile.mkdtemp(prefix="verif-%s-" % prop)
    env = dict(os.environ)
    env["PYTHONHASHSEED"] = str(seed % 4294967295)
    env["VERIF_TMP"] = tmp
    procs = []
    for s in range(nshards):
        out = os.path.join(tmp, "shard%d.json" % s)
        cmd = [sys.executable, "-m", "vf.run", prop, tier, "--seed", str(seed), "--shard", "%d/%d" % (s, nshards),
               "--out", out]
        if only:
            cmd += ["--only", json.dumps(only)]
        procs.append((s, out, subprocess.Popen(cmd, cwd=VERIF, env=env, stdout=subprocess.PIPE,
                                               stderr=subprocess.STDOUT, text=True)))
    merged = {"evaluations": 0, "fps": set(), "features": {}, "counters": {}, "samples": [], "violations": {},
              "skipped_band": 0, "notes": {}, "anchor_hits": {}}
    problems = []
    deadline = t0 + timeout
    for s, out, p in procs:
        try:
            stdout, _ = p.communicate(timeout=max(1.0, deadline - time.time()))
        except subprocess.TimeoutExpired:
            p.kill()
            stdout, _ = p.communicate()
            problems.append("shard %d: watchdog timeout after %ds" % (s, timeout))
            continue
        if not os.path.exists(out):
            problems.append("shard %d: no result (exit %s): %s" % (s, p.returncode, (stdout or "")[-1500:]))
            continue
        with open(out) as f:
            r = json.load(f)
        if r["status"] != "ok":
            problems.append("shard %d: %s %s" % (s, r["status"], r["notes"].get("harness_traceback", "")))
        merged["evaluations"] += r["evaluations"]
        merged["fps"].update(r["fps"])
        merged["skipped_band"] += r["skipped_band"]
        for k in ("features", "counters", "anchor_hits"):
            for a, b in r[k].items():
                merged[k][a] = merged[k].get(a, 0) + b
        for x in r["samples"]:
            if len(merged["samples"]) < 5:
                merged["samples"].append(x)
        merged["notes"].update({k: v for k, v in r["notes"].items() if k != "harness_traceback"})
        for k, v in r["violations"].items():
            if k in merged["violations"]:
                merged["violations"][k]["count"] += v["count"]
            else:
                merged["violations"][k] = v
    import shutil
    shutil.rmtree(tmp, ignore_errors=True)

    # ---- verdict
    known = load_known(prop)
    new, seen_known = [], []
    for k, v in sorted(merged["violations"].items()):
        e = known.get(k)
        if e is not None and e.get("status") == "known":
            seen_known.append((k, e, v))
        else:
            new.append((k, v))
    required = list(getattr(mod, "REQUIRED", []))
    missing = [r for r in required if not (merged["features"].get(r) or merged["counters"].get(r))]
    # anchors that name private helpers are informative only (a behaviour-preserving refactoring may rename them);
    # public entry points must have been entered
    def _private(a):
        n = a.rsplit(".", 1)[-1]
        return n.startswith("_") and not n.startswith("__")
    missing_all = [a for a in getattr(mod, "ANCHORS", []) if not merged["anchor_hits"].get(a)]
    missing_anchors = [a for a in missing_all if not _private(a)]
    if [a for a in missing_all if _private(a)]:
        merged["notes"]["private_anchors_not_entered"] = [a for a in missing_all if _private(a)]
    if only is None:
        if missing:
            problems.append("required features/counters never observed: %s" % missing)
        if missing_anchors and sys.version_info >= (3, 12):
            problems.append("anchored functions never entered: %s" % missing_anchors)
        if merged["evaluations"] and merged["skipped_band"] > 0.2 * merged["evaluations"]:
            problems.append("skipped_band %d > 20%% of %d evaluations" % (merged["skipped_band"],
                                                                        merged["evaluations"]))
        if merged["evaluations"] == 0:
            problems.append("no evaluations")

    os.makedirs(os.path.join(VERIF, "replays"), exist_ok=True)
    lines = []
    for k, e, v in seen_known:
        lines.append("KNOWN-FINDING: property=%s %s -- %s (seen %d times)" % (prop, k, e.get("what", ""), v["count"]))
    for k, v in new:
        safe = "".join(c if c.isalnum() or c in "-_." else "_" for c in k)[:120]
        path = os.path.join(VERIF, "replays", "%s-%s.json" % (prop, safe))
        with open(path, "w") as f:
            json.dump({"property": prop, "key": k, "tier": tier, "seed": seed, "msg": v["msg"], "count": v["count"],
                       "witness": v["witness"], "tree": tree_id()}, f, indent=1)
        lines.append("VIOLATION property=%s replay=%s" % (prop, path))
        lines.append("  key=%s count=%d :: %s" % (k, v["count"], v["msg"][:600]))

    wall = time.time() - t0
    if only is None:
        cov = {
            "evaluations": merged["evaluations"],
            "distinct_nontrivial": len(merged["fps"]),
            "rule": getattr(mod, "RULE", ""),
            "samples": merged["samples"] or [{"note": "no sample recorded"}],
            "feature_classes_covered": dict(sorted(merged["features"].items())),
            "monitor_evaluations": dict(sorted(merged["counters"].items())),
            "anchor_function_hits": dict(sorted(merged["anchor_hits"].items())),
            "skipped_band": merged["skipped_band"],
            "shards": nshards,
            "known_findings_seen": {k: v["count"] for k, e, v in seen_known},
            "new_violation_keys": {k: v["count"] for k, v in new},
            "inconclusive_reasons": problems,
            "tree": tree_id(),
            "notes": merged["notes"],
        }
        if getattr(mod, "EXHAUSTIVE", {}).get(tier):
            cov["exhaustive"] = True
            cov["exhaustive_scope"] = mod.EXHAUSTIVE[tier]
        ev = {"property_id": prop, "tier": tier, "seed": seed, "level": "exploration", "coverage": cov,
              "assumptions": list(getattr(mod, "ASSUMPTIONS", [])), "wall_s": round(wall, 2), "violations": len(new)}
        os.makedirs(os.path.join(VERIF, "evidence"), exist_ok=True)
        evdir = "evidence" if not os.environ.get("VERIF_NO_EVIDENCE") else "replays"  # scratch-tree runs keep evidence
        with open(os.path.join(VERIF, evdir, prop + ".json"), "w") as f:
            json.dump(ev, f, indent=1, sort_keys=True)
            f.write("\n")

    for ln in lines:
        print(ln)
    print("%s %s seed=%d: evaluations=%d distinct=%d skipped_band=%d known=%d new=%d wall=%.1fs" % (
        prop, tier, seed, merged["evaluations"], len(merged["fps"]), merged["skipped_band"], len(seen_known), len(new),
        wall))
    for p in problems:
        print("INCONCLUSIVE property=%s %s" % (prop, p[:3000]))
    if new:
        return 1
    if problems:
        return 2
    return 0


def main(argv):
    prop = argv[0]
    args = argv[1:]
    tier = os.environ.get("VERIF_TIER") or "quick"
    seed = int(os.environ.get("VERIF_SEED", "0") or 0)
    shard = out = only = replay = None
    i = 0
    while i < len(args):
        a = args[i]
        if a in ("quick", "thorough"):
            tier = a
        elif a == "--seed":
            i += 1
            seed = int(args[i])
        elif a == "--shard":
            i += 1
            shard = tuple(int(x) for x in args[i].split("/"))
        elif a == "--out":
            i += 1
            out = args[i]
        elif a == "--only":
            i += 1
            only = json.loads(args[i])
        elif a == "--replay":
            i += 1
            replay = args[i]
        i += 1
    if shard is not None:
        child_main(prop, tier, seed, shard[0], shard[1], out, only)
        return 0
    return parent_main(prop, tier, seed, replay)


if __name__ == "__main__":
    sys.exit(main(sys.argv[1:]))
