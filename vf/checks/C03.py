"""C03 — every written XML scenario file is valid against the 2020a schema (monitor: vf.monitors.roundtrip: XSD validation
with the schema of the tree under test + lexical scan for non-decimal numbers + the library's own reader)."""
CLAIM = True
RULE = ("the C01 generator with the magnitude-stress layer (very small 1e-7..1e-4 and large 1e5..7e6 values, ints, numpy "
        "scalars, -0.0 in every real-valued slot: rectangle length/width/orientation, circle radius, centres, dt, GPS, "
        "geo transformation, state attributes, interval ends, stop-line points) x precisions 1..12, plus "
        "write_scenario_to_file-free planning-problem variations; every file written is validated. distinct = "
        "structural fingerprint; non-trivial = has >=1 obstacle or sign/light")
ANCHORS = ["XMLFileWriter.write_to_file", "float_to_str", "RectangleXMLNode.create_rectangle_node",
           "CircleXMLNode.create_circle_node", "LocationXMLNode.create_node", "GeoTransformationXMLNode.create_node",
           "LaneletXMLNode.create_node", "TrafficLightXMLNode.create_node", "IntersectionXMLNode.create_node"]
REQUIRED = ["goal.orientation.almost-full-circle", "retry-after-failed-write", "environment.time-24:00", "contract.xsd", "contract.xml.write_to_file", "role.static", "role.dynamic", "role.phantom",
            "role.environment", "shape.rectangle", "shape.circle", "shape.group", "intersection", "stopline.refs",
            "goal.position.group", "goal.position.lanelets", "light.offset.positive", "lanelet.3d.zero-height-vertex"] + \
           ["precision.%d" % d for d in range(1, 13)]
ASSUMPTIONS = ["generated scenarios are schema-expressible by construction; on the unchanged tree every distinct XSD "
               "error class was inspected and either attributed to the library or removed from the generator"]
SHARDS = {"quick": 4, "thorough": 16}


def run(ctx):
    from vf.checks._rt import drive
    n = ctx.pick(300, 15000)
    drive(ctx, "xml", n, (lambda i: [1 + i % 12]) if ctx.quick else (lambda i: [1 + i % 12, 1 + (i + 6) % 12]),
          fixture_precisions=(4,) if ctx.quick else (2, 4, 8, 12), keep_prefix="C03")

    # ambient workload (thorough tier): the repository's own tests with the contracts installed
    if not ctx.quick and ctx.shard == 0 and ctx.only is None:
        from vf.ambient import run_ambient
        run_ambient(ctx, ['roundtrip'])
