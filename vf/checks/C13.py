"""C13 — benchmark ids print and parse consistently (ScenarioID and Solution benchmark ids)."""
import re

CLAIM = True
RULE = ("stratified product over cooperative x country (all ISO alpha-3 + ZAM cycled) x map names x map id x id kind "
        "(map / config / behaviour / behaviour+id / behaviour+several ids / behaviour without config) x behaviour "
        "S,T,P,I; oracle: independent grammar regex, field-wise comparison after from_benchmark_id(str(id)), identical "
        "re-print; solutions over every (model, type, admissible cost) and lists of 1..4 through the real "
        "writer/reader. distinct = distinct printed id; non-trivial = has at least one optional part or is "
        "cooperative or is a solution id")
ANCHORS = ["ScenarioID.__str__", "ScenarioID.from_benchmark_id", "CommonRoadSolutionReader._parse_benchmark_id",
           "CommonRoadSolutionReader._parse_vehicle_id"]
REQUIRED = ["kind.map", "kind.config", "kind.behaviour", "kind.behaviour+id", "kind.behaviour+ids",
            "kind.behaviour-noconfig", "cooperative", "country.ZAM", "solution.single", "solution.cooperative",
            "all-model-type-cost-tuples", "assigned-after-print.map_id", "assigned-after-print.prediction_id",
            "assigned-after-print.configuration_id", "original-inspected-before-comparison", "read-again-after-the-first-result-was-edited", "solution.given-as-input-vector.PM", "solution.given-as-input-vector.other"]
ASSUMPTIONS = ["single-element prediction-id lists are not generated (canonical single form is the int)",
               "map names consist of letters and digits (the constructor strips everything else)"]
SHARDS = {"quick": 2, "thorough": 16}

GRAMMAR = re.compile(r"^(C-)?[A-Z]{3}_[A-Za-z0-9]+-[1-9][0-9]*(_[1-9][0-9]*(_[STPI](-[1-9][0-9]*)+)?)?$")
FIELDS = ["cooperative", "country_id", "map_name", "map_id", "configuration_id", "obstacle_behavior", "prediction_id",
          "scenario_version"]


def expected_fields(f, version):
    """What the constructor documents: config/prediction default to 1 when a later part is present."""
    e = dict(f)
    is_map = f["configuration_id"] is None and f["obstacle_behavior"] is None and f["prediction_id"] is None
    if not is_map:
        if f["obstacle_behavior"] is not None and f["prediction_id"] is None:
            e["prediction_id"] = 1
        if f["configuration_id"] is None:
            e["configuration_id"] = 1
    e["scenario_version"] = version
    return e


def expected_str(e):
    s = "%s_%s-%d" % (e["country_id"], e["map_name"], e["map_id"])
    if e["configuration_id"] is not None:
        s += "_%d" % e["configuration_id"]
        if e["obstacle_behavior"] is not None:
            p = e["prediction_id"]
            p = p if isinstance(p, list) else [p]
            s += "_" + e["obstacle_behavior"] + "".join("-%d" % x for x in p)
    return ("C-" if e["cooperative"] else "") + s


def run(ctx):
    from commonroad.common.solution import (CommonRoadSolutionReader, CommonRoadSolutionWriter, CostFunction,
                                            SupportedCostFunctions, VehicleModel, VehicleType)
    from commonroad.scenario.scenario import ScenarioID
    from vf.gen import solutions as G
    import commonroad
    versions = list(commonroad.SUPPORTED_COMMONROAD_VERSIONS) if hasattr(commonroad, "SUPPORTED_COMMONROAD_VERSIONS") \
        else ["2020a"]
    clist = G.countries()

    n = ctx.pick(20000, 1500000)
    for i, rng in ctx.cases("scenario-id", n):
        f, kind = G.gen_scenario_id_fields(rng)
        f["country_id"] = clist[i % len(clist)] if i % 3 else f["country_id"]
        version = rng.choice(versions)
        ctx.evaluation()
        ctx.feature("kind." + kind)
        if f["cooperative"]:
            ctx.feature("cooperative")
        ctx.feature("country.ZAM" if f["country_id"] == "ZAM" else "country.iso")
        try:
            sid = ScenarioID(scenario_version=version, **f)
            s = str(sid)
        except Exception as e:  # noqa
            ctx.violation("C13/ScenarioID/construct-or-print-raises-%s/%s" % (type(e).__name__, kind),
                          "%r raised %r" % (f, e), f)
            continue
        if kind != "map" or f["cooperative"]:
            ctx.fingerprint(s)
        if i < 3:
            ctx.sample({"fields": f, "printed": s})
        e = expected_fields(f, version)
        es = expected_str(e)
        if not GRAMMAR.match(s):
            ctx.violation("C13/ScenarioID.__str__/not-in-grammar/" + kind, "%r prints %r" % (f, s), f)
            continue
        if s != es:
            ctx.violation("C13/ScenarioID.__str__/wrong-text/" + kind, "%r prints %r expected %r" % (f, s, es), f)
        try:
            back = ScenarioID.from_benchmark_id(s, version)
        except Exception as ex:  # noqa
            ctx.violation("C13/ScenarioID.from_benchmark_id/raises-%s/%s" % (type(ex).__name__, kind),
                          "parse(%r) raised %r" % (s, ex), f)
            continue
        for fld in FIELDS:
            a, b = getattr(sid, fld), getattr(back, fld)
            if a != b or type(a) is not type(b):
                ctx.violation("C13/ScenarioID.from_benchmark_id/field-differs/%s/%s" % (fld, kind),
                              "id %r: %s %r -> %r" % (s, fld, a, b), f)
            if getattr(sid, fld) != e[fld]:
                ctx.violation("C13/ScenarioID.__init__/field-not-as-documented/%s/%s" % (fld, kind),
                              "%r: %s=%r expected %r" % (f, fld, getattr(sid, fld), e[fld]), f)
        if str(back) != s:
            ctx.violation("C13/ScenarioID/reprint-differs/" + kind, "%r -> %r" % (s, str(back)), f)
        if i % 2 == 0:
            # an id in use has been LOOKED at (its derived read-only properties, e.g. the country name for a title); the
            # freshly parsed one has not: they are still the same id
            for a_ in dir(sid):
                if not a_.startswith("_") and a_ not in FIELDS:
                    try:
                        v_ = getattr(type(sid), a_, None)
                        if isinstance(v_, property):
                            getattr(sid, a_)
                    except Exception:  # noqa
                        pass
            ctx.feature("original-inspected-before-comparison")
        try:
            if not (sid == back) or not (back == sid) or hash(sid) != hash(back):
                if not isinstance(sid.prediction_id, list):  # list-valued ids are unhashable: C12's business
                    ctx.violation("C13/ScenarioID/parsed-id-not-equal/" + kind, "%r" % s, f)
                elif not (sid == back):
                    ctx.violation("C13/ScenarioID/parsed-id-not-equal/" + kind, "%r" % s, f)
        except TypeError:
            if not (sid == back):
                ctx.violation("C13/ScenarioID/parsed-id-not-equal/" + kind, "%r" % s, f)

        # ---- the same object after a field assignment (ids are mutable): print -> assign -> print must follow the fields
        f2 = dict(e)
        f2.pop("scenario_version")
        choices = ["map_id", "cooperative"]
        if f2["configuration_id"] is not None:
            choices.append("configuration_id")
        if f2["obstacle_behavior"] is not None:
            choices += ["obstacle_behavior", "prediction_id"]
        fld = rng.choice(choices)
        if fld == "cooperative":
            f2[fld] = not f2[fld]
        elif fld == "obstacle_behavior":
            f2[fld] = rng.choice([b for b in "STPI" if b != f2[fld]])
        elif fld == "prediction_id":
            f2[fld] = [x + 1 for x in f2[fld]] if isinstance(f2[fld], list) else f2[fld] + 1
        else:
            f2[fld] = f2[fld] + 1
        ctx.evaluation()
        ctx.feature("assigned-after-print." + fld)
        try:
            setattr(sid, fld, f2[fld])
            s2 = str(sid)
            es2 = expected_str(dict(f2, scenario_version=version))
            if s2 != es2:
                ctx.violation("C13/ScenarioID.__str__/stale-after-assignment/" + fld,
                              "printed %r, assigned %s=%r, printed %r expected %r" % (s, fld, f2[fld], s2, es2), f)
            else:
                back2 = ScenarioID.from_benchmark_id(s2, version)
                if any(getattr(back2, k) != getattr(sid, k) for k in FIELDS):
                    ctx.violation("C13/ScenarioID.from_benchmark_id/field-differs-after-assignment/" + fld,
                                  "%r" % s2, f)
        except Exception as ex:  # noqa
            ctx.violation("C13/ScenarioID/assign-then-print-raises-%s/%s" % (type(ex).__name__, fld), repr(ex), f)

    # ---- solution benchmark ids through the real writer and reader
    tuples = [(m, t, c) for m in VehicleModel for t in VehicleType for c in SupportedCostFunctions[m.name].value]
    nsol = ctx.pick(len(tuples) + 200, len(tuples) + 20000)
    for i, rng in ctx.cases("solution-id", nsol):
        from commonroad.common.solution import PlanningProblemSolution, Solution
        ctx.evaluation()
        if i < len(tuples):
            m, t, c = tuples[i]
            ctx.feature("all-model-type-cost-tuples")
            kinds_mtc = [(m, t, c)]
        else:
            kinds_mtc = [rng.choice(tuples) for _ in range(rng.choice([1, 2, 2, 3, 4]))]
        f, kind = G.gen_scenario_id_fields(rng)
        version = rng.choice(versions)
        sid = ScenarioID(scenario_version=version, **f)
        pps = []
        ids = rng.sample(range(1, 999), len(kinds_mtc))
        for k_, ((m, t, c), pid) in enumerate(zip(kinds_mtc, ids)):
            kind_ = m.name
            if (i + k_) % 3 == 1 and m is not VehicleModel.KST:
                # the solution is given as an input vector: the benchmark id is the same, the document carries another element
                kind_ = "PMInput" if m is VehicleModel.PM else "Input"
                ctx.feature("solution.given-as-input-vector." + ("PM" if m is VehicleModel.PM else "other"))
            traj, _ = G.gen_trajectory(rng, kind_, n=2, hostile=False)
            pps.append(PlanningProblemSolution(pid, m, t, c, traj))
        sol = Solution(sid, pps)
        ctx.feature("solution.single" if len(pps) == 1 else "solution.cooperative")
        try:
            bid = sol.benchmark_id
            vs = [m.name + str(t.value) for m, t, c in kinds_mtc]
            cs = [c.name for m, t, c in kinds_mtc]
            exp = "%s:%s:%s:%s" % (vs[0] if len(vs) == 1 else "[%s]" % ",".join(vs),
                                   cs[0] if len(cs) == 1 else "[%s]" % ",".join(cs), expected_str(expected_fields(f, version)),
                                   version)
            ctx.fingerprint(bid)
            if i in (0, len(tuples) + 1):
                ctx.sample({"benchmark_id": bid})
            if bid != exp:
                ctx.violation("C13/Solution.benchmark_id/wrong-text", "%r expected %r" % (bid, exp), exp)
                continue
            if any(m is VehicleModel.KST for m, _, _ in kinds_mtc) and hasattr(CommonRoadSolutionReader, "_parse_benchmark_id") \
                    and hasattr(CommonRoadSolutionReader, "_parse_vehicle_id"):
                # KST documents cannot be parsed back when the reader lacks the state class: use the id parser directly
                vids, cids, sid2 = CommonRoadSolutionReader._parse_benchmark_id(bid)
                got = [CommonRoadSolutionReader._parse_vehicle_id(v) for v in vids]
                gm, gt, gc = [g[0] for g in got], [g[1] for g in got], [CostFunction[c] for c in cids]
            else:
                xml = CommonRoadSolutionWriter(sol).dump()
                back = CommonRoadSolutionReader.fromstring(xml)
                sid2 = back.scenario_id
                gm = [p.vehicle_model for p in back.planning_problem_solutions]
                gt = [p.vehicle_type for p in back.planning_problem_solutions]
                gc = [p.cost_function for p in back.planning_problem_solutions]
                if back.benchmark_id != bid:
                    ctx.violation("C13/Solution/benchmark-id-changes-in-round-trip", "%r -> %r" % (bid, back.benchmark_id), bid)
            if gm != [m for m, _, _ in kinds_mtc] or gt != [t for _, t, _ in kinds_mtc] or gc != [c for _, _, c in kinds_mtc]:
                ctx.violation("C13/Solution/vehicle-or-cost-differs", "%r -> %s %s %s" % (bid, gm, gt, gc), bid)
            for fld in FIELDS:
                if getattr(sid2, fld) != getattr(sid, fld):
                    ctx.violation("C13/Solution/scenario-id-field-differs/" + fld,
                                  "%r: %s %r -> %r" % (bid, fld, getattr(sid, fld), getattr(sid2, fld)), bid)
            if i % 2 == 0:
                # what a reader returns belongs to the caller: the scenario id of the first result is edited in place, then
                # the SAME benchmark id is read once more -- it still parses to the id that was written
                ctx.feature("read-again-after-the-first-result-was-edited")
                sid2.map_id = (sid2.map_id or 0) + 1
                sid2.map_name = "Edited"
                sid2.scenario_version = "2018b" if version != "2018b" else "2020a"
                if any(m is VehicleModel.KST for m, _, _ in kinds_mtc) and hasattr(CommonRoadSolutionReader, "_parse_benchmark_id"):
                    sid3 = CommonRoadSolutionReader._parse_benchmark_id(bid)[2]
                else:
                    back3 = CommonRoadSolutionReader.fromstring(xml)
                    sid3 = back3.scenario_id
                    if back3.benchmark_id != bid:
                        ctx.violation("C13/Solution/second-read-of-the-same-document-gives-another-benchmark-id",
                                      "%r -> %r" % (bid, back3.benchmark_id), bid)
                sid4 = ScenarioID.from_benchmark_id(str(sid), version)
                sid4.map_id = (sid4.map_id or 0) + 1
                sid5 = ScenarioID.from_benchmark_id(str(sid), version)
                for fld in FIELDS:
                    if getattr(sid3, fld) != getattr(sid, fld):
                        ctx.violation("C13/Solution/second-read-of-the-same-id-differs/" + fld,
                                      "%r: %s %r -> %r" % (bid, fld, getattr(sid, fld), getattr(sid3, fld)), bid)
                    if getattr(sid5, fld) != getattr(sid, fld):
                        ctx.violation("C13/ScenarioID/second-parse-of-the-same-text-differs/" + fld,
                                      "%r: %s %r -> %r" % (str(sid), fld, getattr(sid, fld), getattr(sid5, fld)), str(sid))
        except Exception as ex:  # noqa
            ctx.violation("C13/Solution/raises-%s" % type(ex).__name__, "%r %r" % (f, ex), f)
