"""C09 — object ids in a scenario stay unique and the id pool stays exact.

History + executable reference model: operation sequences over a small universe of objects with deliberately colliding
ids are run on the real Scenario in lock-step with an abstract id-pool model. After every call: exception iff the model
predicts a collision (and then nothing observable changed), observable ids per kind == model, no duplicates,
generate_object_id fresh; hooked-state invariant scenario._id_set == ids of contained objects, a discrepancy is
confirmed observably (a fresh object with the leaked id cannot be added / with the lost id can be added twice)."""
import copy
import itertools
import warnings

CLAIM = True
RULE = ("operation alphabet: add (single, list, network into an empty network), remove_obstacle (single, list, "
        "not-contained/stale), remove_lanelet (single/list x referenced_elements True/False), remove_traffic_sign / "
        "_light / _intersection (single and list), replace_lanelet_network, erase_lanelet_network, generate_object_id, "
        "re-add of removed objects; universe: 4 lanelets, 3 signs, 3 lights, 3 intersections with incomings, 8 "
        "obstacles of all roles, 2 networks, ids 1..12 colliding across kinds. Exhaustive over all sequences up to "
        "length 2 (quick) / 3 (thorough) of a fixed 18-operation alphabet, plus random histories of length 40. distinct "
        "= distinct operation sequence; non-trivial = contains a removal or a colliding add")
ANCHORS = ["Scenario.add_objects", "Scenario._mark_object_id_as_used", "Scenario.remove_obstacle",
           "Scenario.remove_lanelet", "Scenario.remove_traffic_sign", "Scenario.remove_traffic_light",
           "Scenario.remove_intersection", "Scenario.replace_lanelet_network", "Scenario.erase_lanelet_network",
           "Scenario.generate_object_id", "Scenario.remove_hanging_lanelet_members"]
REQUIRED = ["op.add", "op.add-list", "op.add-network", "op.remove_obstacle", "op.remove_obstacle-list",
            "op.remove_obstacle-stale", "op.remove_lanelet", "op.remove_lanelet-list", "op.remove_lanelet-noref",
            "op.remove_traffic_sign", "op.remove_traffic_sign-list", "op.remove_traffic_light",
            "op.remove_traffic_light-list", "op.remove_intersection", "op.remove_intersection-list",
            "op.replace_lanelet_network", "op.replace_lanelet_network.rejected", "op.erase_lanelet_network", "op.generate_object_id", "collision-predicted",
            "re-add-after-removal", "hooked-state-checked", "nonpositive-ids", "op.remove-stale.lanelet",
            "op.remove-stale.sign", "op.remove-stale.intersection", "network-with-duplicate-ids", "lanelet-with-references-to-no-sign-or-light",
            "op.remove-twin.sign", "op.remove-twin.light", "op.remove-twin.static"]
EXHAUSTIVE = {"quick": "all operation sequences of length <= 2 over the fixed 26-operation alphabet",
              "thorough": "all operation sequences of length <= 4 over the fixed 26-operation alphabet"}
ASSUMPTIONS = ["atomicity of list adds beyond the failing element is not demanded (elements before it stay added)",
               "a network is added with add_objects only while the scenario's network is empty; "
               "a replacement network that cannot be taken (id of a contained obstacle, inconsistent in itself) is rejected with ValueError and leaves the scenario, old network included, unchanged"]
SHARDS = {"quick": 2, "thorough": 16}


class Universe:
    def __init__(self):
        import numpy as np
        from commonroad.geometry.shape import Circle, Rectangle
        from commonroad.prediction.prediction import Occupancy, SetBasedPrediction
        from commonroad.scenario.intersection import Intersection, IntersectionIncomingElement
        from commonroad.scenario.lanelet import Lanelet, LaneletNetwork
        from commonroad.scenario.obstacle import (DynamicObstacle, EnvironmentObstacle, ObstacleType, PhantomObstacle,
                                                  StaticObstacle)
        from commonroad.scenario.state import InitialState
        from commonroad.scenario.traffic_light import (TrafficLight, TrafficLightCycle, TrafficLightCycleElement,
                                                       TrafficLightState)
        from commonroad.scenario.traffic_sign import TrafficSign, TrafficSignElement, TrafficSignIDZamunda
        self.np = np

        def lanelet(i, signs=(), lights=()):
            y = 10.0 * i
            left = np.array([[0.0, y + 2], [10.0, y + 2]])
            right = np.array([[0.0, y], [10.0, y]])
            return Lanelet(left, (left + right) / 2, right, i, traffic_signs=set(signs), traffic_lights=set(lights))

        def sign(i):
            return TrafficSign(i, [TrafficSignElement(TrafficSignIDZamunda.MAX_SPEED, ["50"])], set(), np.array([0.0, 0.0]))

        def light(i):
            return TrafficLight(i, np.array([1.0, 1.0]), TrafficLightCycle([TrafficLightCycleElement(
                TrafficLightState.RED, 2)]))

        def inter(i, incs):
            return Intersection(i, [IntersectionIncomingElement(k, {1}, set(), {2}, set()) for k in incs], set())

        def st(i):
            return StaticObstacle(i, ObstacleType.PARKED_VEHICLE, Rectangle(2.0, 1.0),
                                  InitialState(time_step=0, position=np.array([5.0, 1.0]), orientation=0.0))

        def dy(i):
            # one dynamic obstacle per kind of prediction: none (8), set-based (11), trajectory (-7)
            pred = None
            if i == 11:
                pred = SetBasedPrediction(1, [Occupancy(1, Rectangle(3.0, 2.0, np.array([6.0, 11.0]))),
                                              Occupancy(2, Rectangle(3.0, 2.0, np.array([7.0, 11.0])))])
            elif i == -7:
                from commonroad.prediction.prediction import TrajectoryPrediction
                from commonroad.scenario.state import KSState
                from commonroad.scenario.trajectory import Trajectory
                pred = TrajectoryPrediction(Trajectory(1, [KSState(time_step=t, position=np.array([5.0 + t, 11.0]),
                                                                   orientation=0.0, velocity=1.0, steering_angle=0.0)
                                                           for t in (1, 2)]), Rectangle(2.0, 1.0))
            return DynamicObstacle(i, ObstacleType.CAR, Rectangle(2.0, 1.0),
                                   InitialState(time_step=0, position=np.array([5.0, 11.0]), orientation=0.0), pred)

        def ph(i):
            return PhantomObstacle(i, SetBasedPrediction(1, [Occupancy(1, Circle(1.0, np.array([0.0, 0.0])))]))

        def en(i):
            return EnvironmentObstacle(i, ObstacleType.BUILDING, Circle(1.0, np.array([50.0, 50.0])))

        # key -> (kind, ids it reserves, factory)
        self.spec = {}
        # lanelets may carry sign / light reference NUMBERS that no contained sign / light has (they are plain id sets);
        # such a number may at the same time be the id of a contained object of another kind (obstacles 7, 8, 1)
        self.lrefs = {3: ((7,), (8,)), 4: ((1, 5), ())}
        for i in (1, 2, 3, 4):
            self.spec["L%d" % i] = ("lanelet", [i], lambda i=i: lanelet(i, *self.lrefs.get(i, ((), ()))))
        for i in (3, 5, 6):
            self.spec["S%d" % i] = ("sign", [i], lambda i=i: sign(i))
        for i in (4, 6, 7):
            self.spec["T%d" % i] = ("light", [i], lambda i=i: light(i))
        for i, incs in ((8, [9, 10]), (5, [10, 11]), (9, [2])):
            self.spec["I%d" % i] = ("intersection", [i] + incs, lambda i=i, incs=incs: inter(i, incs))
        for i in (7, 1):
            self.spec["Os%d" % i] = ("static", [i], lambda i=i: st(i))
        for i in (8, 11):
            self.spec["Od%d" % i] = ("dynamic", [i], lambda i=i: dy(i))
        for i in (12, 3):
            self.spec["Op%d" % i] = ("phantom", [i], lambda i=i: ph(i))
        for i in (10, 2):
            self.spec["Oe%d" % i] = ("environment", [i], lambda i=i: en(i))
        # ids <= 0 are valid for obstacles (only lanelet-network elements need natural numbers)
        self.nonpositive = []
        for key, kind, i, fn in (("Os-1", "static", -1, st), ("Od-7", "dynamic", -7, dy), ("Oe0", "environment", 0, en),
                                 ("Op-3", "phantom", -3, ph), ("Os-12", "static", -12, st)):
            self.spec[key] = (kind, [i], lambda i=i, fn=fn: fn(i))
            self.nonpositive.append(key)
        # networks: members are (key-like) elements with their own ids
        self.nets = {
            "N1": [("lanelet", 1, ("L", [5], [6])), ("lanelet", 2, ("L", [5], [])), ("sign", 5, None), ("light", 6, None),
                   ("intersection", 8, [9])],
            "N2": [("lanelet", 2, ("L", [6], [4])), ("lanelet", 3, ("L", [], [4])), ("sign", 6, None), ("light", 4, None)],
            # networks that are inconsistent in themselves (the network classes do not check ids): two intersections
            # sharing an incoming id / an incoming id equal to a lanelet id. Adding them to a scenario is rejected.
            "N3": [("lanelet", 1, ("L", [], [])), ("lanelet", 2, ("L", [], [])), ("intersection", 8, [9, 10]),
                   ("intersection", 12, [10])],
            "N4": [("lanelet", 1, ("L", [], [])), ("lanelet", 2, ("L", [], [])), ("intersection", 8, [2])],
        }
        self._lanelet, self._sign, self._light, self._inter = lanelet, sign, light, inter
        self.LaneletNetwork = LaneletNetwork

    def make(self, key):
        return self.spec[key][2]()

    def make_net(self, name):
        net = self.LaneletNetwork()
        for kind, i, extra in self.nets[name]:
            if kind == "lanelet":
                net.add_lanelet(self._lanelet(i, extra[1], extra[2]))
        for kind, i, extra in self.nets[name]:
            if kind == "sign":
                net.add_traffic_sign(self._sign(i), set())
            elif kind == "light":
                net.add_traffic_light(self._light(i), set())
            elif kind == "intersection":
                net.add_intersection(self._inter(i, extra))
        return net

    def net_ids(self, name):
        out = []
        for kind, i, extra in self.nets[name]:
            out.append((kind, i))
            if kind == "intersection":
                out += [("incoming", k) for k in extra]
        return out


class Model:
    """abstract id pool: id -> kind of the contained object; lanelet -> (signs, lights) references"""

    def __init__(self):
        self.ids = {}       # id -> kind
        self.refs = {}      # lanelet id -> (set(sign ids), set(light ids))
        self.inter = {}     # intersection id -> incoming ids
        self.generated = set()

    def network_ids(self):
        return {i for i, k in self.ids.items() if k in ("lanelet", "sign", "light", "intersection", "incoming")}

    def network_empty(self):
        return not any(k == "lanelet" for k in self.ids.values())


FIXED_ALPHABET = [
    ("add", "L1"), ("add", "L3"), ("add", "Os7"), ("remove", "L3"), ("add", "Os1"), ("add", "S3"), ("add", "Op3"), ("add", "I8"), ("add", "Od8"), ("add", "I9"),
    ("add-list", ("L2", "Oe2")), ("add-network", "N1"), ("add-network", "N3"), ("remove", "L1"), ("remove", "Os1"), ("remove-list", ("I8",)),
    ("remove", "I8"), ("remove", "S3"), ("replace", "N2"), ("erase", None), ("gen", None), ("remove-stale", "Os1"),
    ("remove-stale", "L1"), ("remove-stale", "S3"), ("remove-stale", "I8"), ("remove-twin", "S3"), ("remove-twin", "Os7"),
    ("add", "T6"), ("remove-twin", "T6"),
]


def run(ctx):
    warnings.simplefilter("ignore")
    from commonroad.scenario.scenario import Scenario
    U = Universe()

    def observable(sc):
        net = sc.lanelet_network
        out = []
        out += [("lanelet", la.lanelet_id) for la in net.lanelets]
        out += [("sign", s.traffic_sign_id) for s in net.traffic_signs]
        out += [("light", s.traffic_light_id) for s in net.traffic_lights]
        for x in net.intersections:
            out.append(("intersection", x.intersection_id))
            out += [("incoming", i.incoming_id) for i in x.incomings]
        out += [("static", o.obstacle_id) for o in sc.static_obstacles]
        out += [("dynamic", o.obstacle_id) for o in sc.dynamic_obstacles]
        out += [("phantom", o.obstacle_id) for o in sc.phantom_obstacle]
        out += [("environment", o.obstacle_id) for o in sc.environment_obstacle]
        return sorted(out)

    def run_history(hist, tag):
        sc = Scenario(0.1)
        m = Model()
        live = {}  # key -> real object currently contained (for removal by identity)
        removed_once = set()
        trace = []
        for step, (op, arg) in enumerate(hist):
            trace.append([op, arg])
            wit = {"history": trace}
            before = observable(sc)
            exp_exc = False
            ctx.evaluation()
            try:
                # ------------------------------------------------------------------------------ model + real call
                if op == "add":
                    kind, ids, _ = U.spec[arg]
                    if arg in live:
                        continue
                    ctx.feature("op.add")
                    if arg in removed_once:
                        ctx.feature("re-add-after-removal")
                    exp_exc = any(i in m.ids for i in ids)
                    obj = U.make(arg)
                    try:
                        sc.add_objects(obj)
                        raised = None
                    except ValueError as e:
                        raised = e
                    if not exp_exc:
                        if raised is not None:
                            ctx.violation("C09/add_objects/raises-for-free-id/%s%s" % (
                                kind, "/after-removal" if arg in removed_once else ""),
                                "adding %s (ids %s) raised %r although no contained object uses these ids" % (
                                    arg, ids, raised), wit)
                            return
                        live[arg] = obj
                        m.ids[ids[0]] = kind
                        for i in ids[1:]:
                            m.ids[i] = "incoming"
                        if kind == "intersection":
                            m.inter[ids[0]] = ids[1:]
                        if kind == "lanelet":
                            m.refs[ids[0]] = tuple(set(x) for x in U.lrefs.get(ids[0], ((), ())))
                            if U.lrefs.get(ids[0]):
                                ctx.feature("lanelet-with-references-to-no-sign-or-light")
                    else:
                        ctx.feature("collision-predicted")
                        if raised is None:
                            ctx.violation("C09/add_objects/accepts-id-in-use/" + kind,
                                          "adding %s (ids %s) succeeded although ids %s are in use" % (
                                              arg, ids, [i for i in ids if i in m.ids]), wit)
                            return
                elif op == "add-list":
                    ctx.feature("op.add-list")
                    objs, keys = [], []
                    for k in arg:
                        if k not in live:
                            objs.append(U.make(k))
                            keys.append(k)
                    raised = None
                    try:
                        sc.add_objects(objs)
                    except ValueError as e:
                        raised = e
                    ok_prefix = []
                    for k, o in zip(keys, objs):
                        kind, ids, _ = U.spec[k]
                        if any(i in m.ids for i in ids):
                            exp_exc = True
                            break
                        ok_prefix.append(k)
                        live[k] = o
                        m.ids[ids[0]] = kind
                        for i in ids[1:]:
                            m.ids[i] = "incoming"
                        if kind == "lanelet":
                            m.refs[ids[0]] = tuple(set(x) for x in U.lrefs.get(ids[0], ((), ())))
                    if exp_exc != (raised is not None):
                        ctx.violation("C09/add_objects(list)/exception-mismatch", "expected exception %s, got %r" % (
                            exp_exc, raised), wit)
                        return
                    exp_exc = False  # partial adds are admitted: compare with the model state below
                elif op == "add-network":
                    if not m.network_empty() or m.network_ids():
                        continue
                    ctx.feature("op.add-network")
                    nid = U.net_ids(arg)
                    all_ids = [i for _, i in nid]
                    exp_exc = any(i in m.ids for _, i in nid) or len(set(all_ids)) != len(all_ids)
                    if len(set(all_ids)) != len(all_ids):
                        ctx.feature("network-with-duplicate-ids")
                    net = U.make_net(arg)
                    try:
                        sc.add_objects(net)
                        raised = None
                    except ValueError as e:
                        raised = e
                    if exp_exc != (raised is not None):
                        ctx.violation("C09/add_objects(network)/exception-mismatch", "expected exception %s got %r" % (
                            exp_exc, raised), wit)
                        return
                    if not exp_exc:
                        self_add_net(m, U, arg, live, net)
                    else:
                        ctx.feature("collision-predicted")
                elif op in ("remove", "remove-list", "remove-noref", "remove-list-noref"):
                    keys = [arg] if op in ("remove", "remove-noref") else list(arg)
                    keys = [k for k in keys if k in live]
                    if not keys:
                        continue
                    kinds = {U.spec[k][0] if k in U.spec else k.split(":")[0] for k in keys}
                    if len(kinds) != 1 and not kinds <= {"static", "dynamic", "phantom", "environment"}:
                        continue
                    kind = kinds.pop() if len(kinds) == 1 else "obstacle"
                    objs = [live[k] for k in keys]
                    arg_real = objs[0] if op in ("remove", "remove-noref") else objs
                    listform = "-list" if isinstance(arg_real, list) else ""
                    noref = op.endswith("noref")
                    if kind in ("static", "dynamic", "phantom", "environment", "obstacle"):
                        ctx.feature("op.remove_obstacle" + listform)
                        sc.remove_obstacle(arg_real)
                    elif kind == "lanelet":
                        ctx.feature("op.remove_lanelet" + ("-noref" if noref else listform))
                        sc.remove_lanelet(arg_real, referenced_elements=not noref)
                    elif kind == "sign":
                        ctx.feature("op.remove_traffic_sign" + listform)
                        sc.remove_traffic_sign(arg_real)
                    elif kind == "light":
                        ctx.feature("op.remove_traffic_light" + listform)
                        sc.remove_traffic_light(arg_real)
                    elif kind == "intersection":
                        ctx.feature("op.remove_intersection" + listform)
                        sc.remove_intersection(arg_real)
                    for k in keys:
                        model_remove(m, U, k, live, removed_once, not noref)
                elif op == "remove-twin":
                    # removal is by id: the object handed over may be ANOTHER object with the id of a contained one and
                    # different content (e.g. an edited copy, a re-read element): the contained one goes, its id is free again
                    if arg not in live:
                        continue
                    kind_t = U.spec[arg][0]
                    if kind_t not in ("sign", "light", "static", "dynamic", "environment"):
                        continue
                    import numpy as np
                    twin = U.make(arg)
                    twin.translate_rotate(np.array([5.0, 3.0]), 0.0)
                    ctx.feature("op.remove-twin." + kind_t)
                    {"sign": sc.remove_traffic_sign, "light": sc.remove_traffic_light}.get(kind_t, sc.remove_obstacle)(twin)
                    model_remove(m, U, arg, live, removed_once, True)
                elif op == "remove-stale":
                    # remove_obstacle with an obstacle that is not contained: documented as a warning, no change
                    if arg in live:
                        continue
                    kind_, ids_, _ = U.spec[arg]
                    if kind_ in ("static", "dynamic", "phantom", "environment"):
                        ctx.feature("op.remove_obstacle-stale")
                        sc.remove_obstacle(U.make(arg))
                    else:
                        # a network element that is NOT contained (its id may be in use by an object of another kind):
                        # nothing is removed, so no id may become free
                        if m.ids.get(ids_[0]) == kind_:
                            continue  # an element of the same kind with this id is contained: that would be a real removal
                        ctx.feature("op.remove-stale." + kind_)
                        obj_ = U.make(arg)
                        if kind_ == "lanelet":
                            # (without the hanging-member clean-up: that one looks at the references of the PASSED lanelet
                            # and may legitimately remove contained signs / lights that nothing else refers to)
                            sc.remove_lanelet(obj_, referenced_elements=False)
                        else:
                            {"sign": sc.remove_traffic_sign, "light": sc.remove_traffic_light,
                             "intersection": sc.remove_intersection}[kind_](obj_)
                            if kind_ == "light":
                                _cleanup_refs(m, 1, "light")  # the network cleans light references on every call
                elif op == "replace":
                    nid = U.net_ids(arg)
                    obst = {i for i, k in m.ids.items() if k in ("static", "dynamic", "phantom", "environment")}
                    all_ids = [i for _, i in nid]
                    if any(i in obst for _, i in nid) or len(set(all_ids)) != len(all_ids):
                        # the new network cannot be taken (one of its ids belongs to a contained obstacle, or it is
                        # inconsistent in itself): ValueError, and the scenario -- old network included -- is as before
                        ctx.feature("op.replace_lanelet_network.rejected")
                        exp_exc = True
                        net = U.make_net(arg)
                        try:
                            sc.replace_lanelet_network(net)
                            raised = None
                        except ValueError as e:
                            raised = e
                        if raised is None:
                            ctx.violation("C09/replace_lanelet_network/colliding-network-accepted", "ids %s" % sorted(all_ids), wit)
                            return
                    else:
                        ctx.feature("op.replace_lanelet_network")
                        net = U.make_net(arg)
                        sc.replace_lanelet_network(net)
                        model_erase(m, live, removed_once)
                        self_add_net(m, U, arg, live, net)
                elif op == "erase":
                    ctx.feature("op.erase_lanelet_network")
                    sc.erase_lanelet_network()
                    model_erase(m, live, removed_once)
                elif op == "gen":
                    ctx.feature("op.generate_object_id")
                    g = sc.generate_object_id()
                    if g in m.ids:
                        ctx.violation("C09/generate_object_id/returns-id-in-use", "returned %r, used by a %s" % (
                            g, m.ids[g]), wit)
                        return
                    if g in m.generated:
                        ctx.violation("C09/generate_object_id/returns-id-twice", "returned %r again" % g, wit)
                        return
                    m.generated.add(g)
            except Exception as e:  # noqa
                ctx.violation("C09/%s/raises-%s" % (op, type(e).__name__), "%r" % e, wit)
                return
            # --------------------------------------------------------------------------------- observation
            after = observable(sc)
            if exp_exc and after != before and op == "replace":
                ctx.violation("C09/replace_lanelet_network/rejected-replacement-changed-the-scenario",
                              "before %s after %s" % (before, after), wit)
                return
            if exp_exc and after != before:
                ctx.violation("C09/add_objects/rejected-add-changed-the-scenario", "before %s after %s" % (before, after), wit)
                return
            exp = sorted((k, i) for i, k in m.ids.items())
            if after != exp:
                ctx.violation("C09/%s/contained-ids-differ-from-model" % op, "observed %s expected %s" % (after, exp), wit)
                return
            allids = [i for _, i in after]
            if len(allids) != len(set(allids)):
                ctx.violation("C09/%s/duplicate-ids" % op, repr(after), wit)
                return
            # hooked-state invariant, confirmed observably
            if isinstance(getattr(sc, "_id_set", None), set):
                ctx.feature("hooked-state-checked")
                pool = set(sc._id_set)
                leaked, lost = pool - set(allids), set(allids) - pool
            else:
                # registry not reachable under its usual name: decide purely observably, by probing every id of the
                # universe (ids that no contained object has must be addable, ids in use must be rejected)
                ctx.feature("hooked-state-checked")
                ctx.counter("id-pool-decided-by-probing-only")
                uni = {i for _, ids_, _ in U.spec.values() for i in ids_} | set(allids)
                leaked, lost = uni - set(allids), set(allids)
            from commonroad.scenario.obstacle import EnvironmentObstacle, ObstacleType
            from commonroad.geometry.shape import Circle
            for i in sorted(leaked):
                probe = copy.deepcopy(sc)
                try:
                    probe.add_objects(EnvironmentObstacle(i, ObstacleType.BUILDING, Circle(1.0)))
                except ValueError:
                    ctx.violation("C09/%s/id-of-no-contained-object-stays-reserved" % op,
                                  "after the history id %d is used by no contained object but adding a new object with "
                                  "it raises ValueError" % i, wit)
                    return
            for i in sorted(lost):
                probe = copy.deepcopy(sc)
                try:
                    probe.add_objects(EnvironmentObstacle(i, ObstacleType.BUILDING, Circle(1.0)))
                    ctx.violation("C09/%s/id-of-contained-object-became-free" % op,
                                  "id %d is used by a contained object but a second object with it can be added" % i, wit)
                    return
                except ValueError:
                    pass
        return True

    def model_remove(m, U, key, live, removed_once, with_refs):
        kind, ids, _ = U.spec[key] if key in U.spec else (key.split(":")[0], [int(key.split(":")[1])], None)
        live.pop(key, None)
        removed_once.add(key)
        if kind == "lanelet":
            lid = ids[0]
            signs, lights = m.refs.pop(lid, (set(), set()))
            m.ids.pop(lid, None)
            if with_refs:
                rs = set().union(*[v[0] for v in m.refs.values()]) if m.refs else set()
                rl = set().union(*[v[1] for v in m.refs.values()]) if m.refs else set()
                for s in signs - rs:
                    if m.ids.get(s) == "sign":
                        m.ids.pop(s)
                        _drop_live(live, "sign", s, removed_once)
                        _cleanup_refs(m, 0, "sign")
                for s in lights - rl:
                    if m.ids.get(s) == "light":
                        m.ids.pop(s)
                        _drop_live(live, "light", s, removed_once)
                        _cleanup_refs(m, 1, "light")
        elif kind == "intersection":
            for i in [ids[0]] + list(m.inter.pop(ids[0], ids[1:])):
                m.ids.pop(i, None)
        else:
            m.ids.pop(ids[0], None)
            # removing a contained sign / any light makes the network drop EVERY reference number that names no contained
            # sign / light (LaneletNetwork.cleanup_traffic_*_references), not only the number of the removed element
            if kind == "sign":
                _cleanup_refs(m, 0, "sign")
            if kind == "light":
                _cleanup_refs(m, 1, "light")

    def _cleanup_refs(m, which, kind):
        have = {i for i, k in m.ids.items() if k == kind}
        for v in m.refs.values():
            v[which].intersection_update(have)

    def _drop_live(live, kind, i, removed_once):
        for k in list(live):
            if (k in U.spec and U.spec[k][0] == kind and U.spec[k][1][0] == i) or k == "%s:%d" % (kind, i):
                live.pop(k)
                removed_once.add(k)

    def model_erase(m, live, removed_once):
        for i in list(m.ids):
            if m.ids[i] in ("lanelet", "sign", "light", "intersection", "incoming"):
                m.ids.pop(i)
        m.refs.clear()
        m.inter.clear()
        for k in list(live):
            kind = U.spec[k][0] if k in U.spec else k.split(":")[0]
            if kind in ("lanelet", "sign", "light", "intersection"):
                live.pop(k)
                removed_once.add(k)

    def self_add_net(m, U, name, live, net):
        for kind, i, extra in U.nets[name]:
            m.ids[i] = kind
            if kind == "lanelet":
                m.refs[i] = (set(extra[1]), set(extra[2]))
                live["lanelet:%d" % i] = net.find_lanelet_by_id(i)
            elif kind == "sign":
                live["sign:%d" % i] = net.find_traffic_sign_by_id(i)
            elif kind == "light":
                live["light:%d" % i] = net.find_traffic_light_by_id(i)
            elif kind == "intersection":
                live["intersection:%d" % i] = net.find_intersection_by_id(i)
                m.inter[i] = list(extra)
                for k in extra:
                    m.ids[k] = "incoming"

    # ------------------------------------------------------------------------------------------- exhaustive part
    depth = ctx.pick(2, 4)
    seqs = [s for d in range(1, depth + 1) for s in itertools.product(range(len(FIXED_ALPHABET)), repeat=d)]
    for i, rng in ctx.cases("exhaustive", len(seqs)):
        hist = [FIXED_ALPHABET[k] for k in seqs[i]]
        ctx.fingerprint(["ex", list(seqs[i])])
        run_history(hist, "exhaustive")
    # ----------------------------------------------------------------------------------------------- random part
    keys = sorted(U.spec)
    n = ctx.pick(250, 80000)
    for i, rng in ctx.cases("random", n):
        hist = []
        contained_guess = []
        for _ in range(40):
            c = rng.random()
            if c < 0.34:
                k = rng.choice(keys)
                hist.append(("add", k))
                contained_guess.append(k)
            elif c < 0.40:
                hist.append(("add-list", tuple(rng.sample(keys, rng.randint(1, 3)))))
            elif c < 0.44:
                hist.append(("add-network", rng.choice(["N1", "N2", "N3", "N4"])))
            elif c < 0.64:
                pool = contained_guess + ["lanelet:1", "lanelet:2", "lanelet:3", "sign:5", "sign:3", "light:6", "light:4",
                                          "intersection:8"]
                k = rng.choice(pool)
                hist.append((rng.choice(["remove", "remove", "remove-noref"]) if k.startswith("L") or
                             k.startswith("lanelet") else "remove", k))
            elif c < 0.74:
                pool = [k for k in contained_guess] + ["lanelet:1", "lanelet:2", "sign:5", "intersection:8", "I8", "I5"]
                k = rng.choice(pool)
                kind = U.spec[k][0] if k in U.spec else k.split(":")[0]
                same = [x for x in pool if (U.spec[x][0] if x in U.spec else x.split(":")[0]) == kind or
                        (kind in ("static", "dynamic", "phantom", "environment") and x in U.spec and
                         U.spec[x][0] in ("static", "dynamic", "phantom", "environment"))]
                hist.append(("remove-list", tuple(sorted(set(rng.sample(same, min(len(same), rng.randint(1, 2))))))))
            elif c < 0.80:
                hist.append(("replace", rng.choice(["N1", "N2", "N2", "N3"])))
            elif c < 0.84:
                hist.append(("erase", None))
            elif c < 0.90:
                if rng.random() < 0.5:
                    hist.append(("remove-stale", rng.choice(keys)))
                else:
                    hist.append(("remove-twin", rng.choice(contained_guess or keys)))
            else:
                hist.append(("gen", None))
        ctx.fingerprint(["rnd", [[o, a] for o, a in hist]])
        if i < 2:
            ctx.sample({"history": [[o, a] for o, a in hist[:12]], "length": len(hist)})
        run_history(hist, "random")
    # ------------------------------------------------------------------- scenarios whose ids are all zero or negative
    neg = list(U.nonpositive)
    n = ctx.pick(500, 60000)
    for i, rng in ctx.cases("nonpositive-ids", n):
        hist, have = [], []
        for _ in range(rng.randint(3, 12)):
            c = rng.random()
            if c < 0.45:
                k = rng.choice(neg)
                hist.append(("add", k))
                have.append(k)
            elif c < 0.60 and have:
                hist.append(("remove", rng.choice(have)))
            else:
                hist.append(("gen", None))
        ctx.feature("nonpositive-ids")
        ctx.fingerprint(["neg", [[o, a] for o, a in hist]])
        run_history(hist, "nonpositive")
