"""C08 — goal-region membership is decided correctly (GoalRegion.is_reached, PlanningProblem.goal_reached).

Monitors: vf.monitors.goal (icontract postconditions with an independent evaluation of the specification)."""
import math

CLAIM = True
RULE = ("goal regions with 1..4 goal states x every subset of {position, orientation, velocity} (time always) x position "
        "kinds (aligned/rotated rectangle, circle, polygon, shape group, lanelet goal) x angle intervals (length 0.. "
        "2pi-eps, wrapping +-pi/+-2pi) x states of KS/ST/MB/Initial/ExtendedPM/PM/custom classes with values inside, "
        "exactly on (dyadic) and outside every boundary, given as int / float / numpy scalars, point-mass velocities in "
        "all quadrants (incl. exact 3-4-5 speeds); trajectories for goal_reached. distinct = (goal fingerprint, state "
        "fingerprint); non-trivial = goal constrains at least one of position/orientation/velocity")
ANCHORS = ["GoalRegion.is_reached", "GoalRegion._harmonize_state_types", "PlanningProblem.goal_reached",
           "AngleInterval.contains", "Interval.contains"]
REQUIRED = ["contract.GoalRegion.is_reached", "contract.PlanningProblem.goal_reached", "pos.rect", "pos.rect-rot",
            "pos.circle", "pos.polygon", "pos.group", "pos.lanelets", "pos.rect-quarter-turn", "pos.polygon-redefined-through-setter", "angle.len>pi", "angle.wrap", "state.PMState",
            "state.KSState", "state.MBState", "state.CustomState", "pm.vx<0", "value.int", "value.numpy",
            "on-boundary.time", "on-boundary.velocity", "on-boundary.position", "expected.True", "expected.False",
            "multi-goal-state", "requery-after.goal.translate_rotate", "requery-after.lanelet-goal",
            "requery-after.replace-goal-state-in-place", "pm.axis-aligned.vx<0,vy==0", "road-moved-goal-asked-again"]
ASSUMPTIONS = ["orientation verdicts within 1e-9 of an interval end and circle-boundary positions are not judged",
               "states carry every attribute the goal constrains (otherwise the documented ValueError applies)"]
SHARDS = {"quick": 4, "thorough": 16}
TWO_PI = 2 * math.pi
STATE_CLASSES = ["KSState", "STState", "MBState", "InitialState", "ExtendedPMState", "PMState", "CustomState"]


def gen_goal_state(G, rng, ctx, fields):
    import numpy as np
    import commonroad.scenario.state as st
    from commonroad.common.util import AngleInterval, Interval
    from commonroad.geometry.shape import Circle, Polygon, Rectangle, ShapeGroup
    from vf.gen import lattice
    ts = rng.randint(0, 30)
    kw = {"time_step": Interval(ts, ts + rng.choice([0, 1, 5, 20]))}
    info = {}
    if "position" in fields:
        k = rng.choice(["rect", "rect-rot", "circle", "polygon", "group", "lanelets"])
        ctx.feature("pos." + k)
        c = np.array([lattice.q(rng, -20, 20), lattice.q(rng, -20, 20)])
        if k == "rect":
            kw["position"] = Rectangle(rng.choice([2.0, 4.0, 8.5]), rng.choice([1.0, 2.0, 3.5]), c, 0.0)
        elif k == "rect-rot":
            # general headings and exact quarter / half turns (a goal across the road: length and width change roles)
            kw["position"] = Rectangle(rng.choice([2.0, 4.0]), rng.choice([1.0, 2.0]), c, rng.choice(
                [rng.uniform(-3, 3), rng.uniform(-3, 3), math.pi / 2, -math.pi / 2, math.pi, 1.5 * math.pi, -math.pi,
                 -1.5 * math.pi]))
            if abs(math.sin(kw["position"].orientation)) == 1.0 and kw["position"].length != kw["position"].width:
                ctx.feature("pos.rect-quarter-turn")
        elif k == "circle":
            kw["position"] = Circle(rng.choice([1.0, 2.5, 5.0]), c)
        elif k == "polygon":
            verts = np.array([c, c + np.array([4.0, 0.0]), c + np.array([4.0, 3.0]), c + np.array([0.0, 1.5])])
            if rng.random() < 0.35:
                # the region was first given smaller / elsewhere, has answered a query, and was then re-defined through the
                # public vertices setter: it is the polygon it is NOW
                pg = Polygon(verts * 0.25 + np.array([-30.0, 12.0]))
                pg.contains_point(np.array([0.0, 0.0]))
                pg.vertices = verts
                kw["position"] = pg
                ctx.feature("pos.polygon-redefined-through-setter")
            else:
                kw["position"] = Polygon(verts)
        elif k == "group":
            kw["position"] = ShapeGroup([Rectangle(2.0, 1.0, c, 0.0), Circle(1.0, c + np.array([5.0, 0.0])),
                                         Polygon(np.array([c + np.array([0.0, 4.0]), c + np.array([2.0, 4.0]),
                                                           c + np.array([0.0, 6.0])]))])
        else:
            lls, _ = lattice.gen_lanelets(rng, nmax=3, base_id=50)
            kw["position"] = ShapeGroup([la.polygon for la in lls])
            info["lanelets"] = [la.lanelet_id for la in lls]
            info["lanelet_objects"] = lls
    if "orientation" in fields:
        ln = rng.choice([0.0, 0.1, 0.5, 1.0, math.pi - 1e-6, math.pi, math.pi + 1e-6, 3.5, 5.0, TWO_PI - 1e-3])
        a = rng.uniform(-TWO_PI, TWO_PI - ln)
        if rng.random() < 0.3:
            a = rng.choice([-math.pi, math.pi, -TWO_PI + ln * 0]) - ln / 2
            a = max(-TWO_PI, min(a, TWO_PI - ln))
        kw["orientation"] = AngleInterval(a, a + ln)
        if ln > math.pi:
            ctx.feature("angle.len>pi")
        if a < math.pi < a + ln or a < -math.pi < a + ln:
            ctx.feature("angle.wrap")
    if "velocity" in fields:
        v0 = rng.choice([0, 0.0, 5, 2.5, 10.0, lattice.q(rng, 0, 20)])
        kw["velocity"] = Interval(v0, v0 + rng.choice([0, 1, 4, 0.5, 12.5]))
    cls = rng.choice(["CustomState", "KSState", "InitialState", "STState"])
    s = st.CustomState(**kw) if cls == "CustomState" else getattr(st, cls)(**kw)
    return s, info


def pick_scalar(rng, iv, ctx, what):
    """a value inside / on the ends / outside of a closed interval, as int, float or numpy scalar"""
    import numpy as np
    a, b = iv.start, iv.end
    c = rng.random()
    if c < 0.25:
        v = rng.choice([a, b])
        ctx.feature("on-boundary." + what)
    elif c < 0.6:
        v = a + (b - a) * rng.choice([0.5, 0.25, 0.75]) if b > a else a
    elif c < 0.8:
        v = b + rng.choice([0.125, 1, 3])
    else:
        v = a - rng.choice([0.125, 1, 3])
    k = rng.random()
    if k < 0.25 and float(v) == int(v):
        v = int(v)
        ctx.feature("value.int")
    elif k < 0.45:
        v = np.float64(v) if float(v) != int(v) or rng.random() < 0.5 else np.int64(v)
        ctx.feature("value.numpy")
    else:
        v = float(v)
    return v


def pick_position(rng, goal_states, ctx):
    import numpy as np
    from vf.oracle import geom
    gs = [g for g in goal_states if g.has_value("position")]
    if not gs:
        return np.array([rng.uniform(-30, 30), rng.uniform(-30, 30)])
    d = geom.describe(rng.choice(gs).position)
    while d[0] == "group":
        d = rng.choice(d[1])
    c = rng.random()
    if d[0] == "circle":
        ctr, r = d[1], d[2]
        f = rng.choice([0.0, 0.5, 0.9, 1.1, 2.0])
        ang = rng.uniform(0, TWO_PI)
        return np.array([ctr[0] + f * r * math.cos(ang), ctr[1] + f * r * math.sin(ang)])
    ring = d[1]
    k = rng.randrange(len(ring))
    a, b = ring[k], ring[(k + 1) % len(ring)]
    cx, cy = sum(p[0] for p in ring) / len(ring), sum(p[1] for p in ring) / len(ring)
    if c < 0.2:
        ctx.feature("on-boundary.position")
        return np.array(a)
    if c < 0.35:
        ctx.feature("on-boundary.position")
        return np.array([(a[0] + b[0]) / 2, (a[1] + b[1]) / 2])
    if c < 0.7:
        f = rng.choice([0.0, 0.5, 0.9])
        return np.array([cx + f * (a[0] - cx), cy + f * (a[1] - cy)])
    f = rng.choice([1.1, 1.5, 3.0])
    return np.array([cx + f * (a[0] - cx), cy + f * (a[1] - cy)])


def gen_state(G, rng, ctx, goal_states, cls):
    import numpy as np
    import commonroad.scenario.state as st
    g = rng.choice(goal_states)
    t = pick_scalar(rng, g.time_step, ctx, "time")
    t = max(0, int(t) if float(t) == int(t) else int(t) + 1)
    pos = pick_position(rng, goal_states, ctx)
    go = [x for x in goal_states if x.has_value("orientation")]
    if go:
        iv = rng.choice(go).orientation
        c = rng.random()
        th = iv.start + (iv.end - iv.start) * rng.random() if c < 0.5 else rng.choice(
            [iv.start - 0.01, iv.end + 0.01, iv.start + 0.01, iv.end - 0.01, rng.uniform(-math.pi, math.pi)])
        if rng.random() < 0.3:
            th += rng.choice([TWO_PI, -TWO_PI])
        while th > TWO_PI:
            th -= TWO_PI
        while th < -TWO_PI:
            th += TWO_PI
        if rng.random() < 0.15 and float(th) != 0:
            th = int(round(th))
            ctx.feature("value.int")
    else:
        th = rng.uniform(-math.pi, math.pi)
    gv = [x for x in goal_states if x.has_value("velocity")]
    v = pick_scalar(rng, rng.choice(gv).velocity, ctx, "velocity") if gv else rng.uniform(0, 20)
    ctx.feature("state." + cls)
    if cls == "PMState":
        if rng.random() < 0.3 and gv:
            # exact speeds from pythagorean triples scaled to the interval ends
            sp = float(rng.choice(gv).velocity.start)
            vx, vy = rng.choice([(0.6 * sp, 0.8 * sp), (-0.6 * sp, 0.8 * sp), (-0.8 * sp, -0.6 * sp), (sp, 0.0), (0.0, -sp)])
        else:
            sp = abs(float(v)) if float(v) != 0 else 1.0
            vx, vy = sp * math.cos(float(th)), sp * math.sin(float(th))
        if rng.random() < 0.12:
            # driving exactly along an axis: one velocity component is exactly zero (0, 0.0 or -0.0), the other carries the
            # whole speed with either sign
            sp = abs(float(v)) if float(v) != 0 else 1.0
            zero = rng.choice([0, 0.0, -0.0])
            vx, vy = rng.choice([(-sp, zero), (sp, zero), (zero, sp), (zero, -sp)])
            ctx.feature("pm.axis-aligned")
            if vx < 0 and vy == 0:
                ctx.feature("pm.axis-aligned.vx<0,vy==0")
        if vx < 0:
            ctx.feature("pm.vx<0")
        return st.PMState(time_step=t, position=pos, velocity=vx, velocity_y=vy)
    if cls == "CustomState":
        return st.CustomState(time_step=t, position=pos, orientation=th, velocity=v, acceleration=0.5)
    kw = G.state_kw(cls, t, True)
    kw.update({"position": pos, "orientation": th, "velocity": v})
    return getattr(st, cls)(**kw)


def run(ctx):
    from commonroad.planning.goal import GoalRegion
    from commonroad.planning.planning_problem import PlanningProblem
    from commonroad.scenario.trajectory import Trajectory
    from vf import monitors
    from vf.gen.objects import Gen
    from vf.monitors import goal as gm
    monitors.set_sink(ctx)
    gm.install()
    subsets = [[], ["position"], ["orientation"], ["velocity"], ["position", "orientation"], ["position", "velocity"],
               ["orientation", "velocity"], ["position", "orientation", "velocity"]]

    n = ctx.pick(700, 60000)
    for i, rng in ctx.cases("goals", n):
        G = Gen(rng)
        ng = rng.choice([1, 1, 2, 3, 4])
        if ng > 1:
            ctx.feature("multi-goal-state")
        gss, lanelets = [], {}
        goal_lanelet_objects = []
        for j in range(ng):
            fields = subsets[(i + j * 3) % len(subsets)]
            gs, info = gen_goal_state(G, rng, ctx, fields)
            gss.append(gs)
            if "lanelets" in info:
                lanelets[j] = info["lanelets"]
                goal_lanelet_objects.extend(info["lanelet_objects"])
        try:
            goal = GoalRegion(gss, lanelets or None)
        except Exception as e:  # noqa
            ctx.violation("C08/GoalRegion/construct-raises-%s" % type(e).__name__, repr(e), {"i": i})
            continue
        gfp = gm._wit(goal, gss[0])["goal"]
        if i < 2:
            ctx.sample({"goal": gfp})
        states = []
        for k in range(8):
            cls = STATE_CLASSES[(i + k) % len(STATE_CLASSES)]
            s = gen_state(G, rng, ctx, gss, cls)
            states.append(s)
            ctx.evaluation()
            if any(g.used_attributes != ["time_step"] for g in gss):
                ctx.fingerprint([gfp, gm._wit(goal, s)["state"]])
            try:
                exp = gm.expected_reached(goal, s)
                ctx.feature("expected.%s" % exp)
            except KeyError:
                exp = "n/a"
            try:
                goal.is_reached(s)
            except Exception as e:  # noqa
                if exp == "n/a" and isinstance(e, ValueError):
                    continue
                k2, cons = gm.classify(goal, s)
                ctx.violation("C08/GoalRegion.is_reached/raises-%s/%s/%s" % (type(e).__name__, k2, cons), repr(e)[:300],
                              gm._wit(goal, s))
        # query -> move the goal (or replace a goal state in place) -> query again: the verdict is the one for the goal
        # as it is NOW (the contract on is_reached evaluates the current goal states)
        if i % 2 == 0 and states:
            import numpy as np
            op = ["goal.translate_rotate", "planning_problem.translate_rotate", "replace-goal-state-in-place"][(i // 2) % 3]
            tr, an = np.array([rng.uniform(-60, 60), rng.uniform(-60, 60)]), rng.choice([0.0, 0.3, -1.2, 3.0])
            try:
                if op == "goal.translate_rotate":
                    goal.translate_rotate(tr, an)
                elif op == "planning_problem.translate_rotate":
                    PlanningProblem(8, G.state("InitialState", 0), goal).translate_rotate(tr, an)
                else:
                    j = rng.randrange(len(goal.state_list))
                    goal.state_list[j] = goal.state_list[j].translate_rotate(tr, an)
                ctx.feature("requery-after." + op)
                if lanelets:
                    ctx.feature("requery-after.lanelet-goal")
                for s in states:
                    for s2 in (s, s.translate_rotate(tr, an) if getattr(s, "position", None) is not None else s):
                        ctx.evaluation()
                        try:
                            goal.is_reached(s2)
                        except ValueError:
                            pass
            except Exception as e:  # noqa
                ctx.violation("C08/requery-after/%s/raises-%s" % (op, type(e).__name__), repr(e)[:300], {"goal": gfp})
        # the goal region is an object of its own: moving the ROAD (the lanelets whose polygons a lanelet goal was built
        # from) does not move the goal; the same states get the same verdicts as before
        if i % 2 == 1 and goal_lanelet_objects and states:
            import numpy as np
            verdicts = []
            for s in states:
                try:
                    verdicts.append(bool(goal.is_reached(s)))
                except Exception:  # noqa
                    verdicts.append(None)
            tr, an = np.array([rng.uniform(30, 60), rng.uniform(-60, -30)]), rng.choice([0.4, -1.3, 3.0])
            for la in goal_lanelet_objects:
                la.translate_rotate(tr, an)
            ctx.feature("road-moved-goal-asked-again")
            for s, v0 in zip(states, verdicts):
                ctx.evaluation()
                try:
                    v1 = bool(goal.is_reached(s))
                except Exception:  # noqa
                    v1 = None
                if v0 is not None and v1 != v0:
                    ctx.violation("C08/GoalRegion.is_reached/verdict-changed-after-moving-the-road",
                                  "the lanelets a lanelet goal refers to were moved (translate_rotate on the lanelets); "
                                  "the same state was %s before and is %s now" % (v0, v1), gm._wit(goal, s))
                    break
        # goal_reached on trajectories of one state class (same attribute set required)
        for cls in (STATE_CLASSES[i % len(STATE_CLASSES)], "PMState"):
            sl = [gen_state(G, rng, ctx, gss, cls) for _ in range(rng.randint(1, 5))]
            for k, s in enumerate(sl):
                s.time_step = sl[0].time_step + k
            try:
                pp = PlanningProblem(7, G.state("InitialState", 0), goal)
                ctx.evaluation()
                pp.goal_reached(Trajectory(sl[0].time_step, sl))
            except Exception as e:  # noqa
                ctx.violation("C08/PlanningProblem.goal_reached/raises-%s/%s" % (type(e).__name__, cls), repr(e)[:300],
                              {"goal": gfp})

    # ambient workload (thorough tier): the repository's own tests with the contracts installed
    if not ctx.quick and ctx.shard == 0 and ctx.only is None:
        from vf.ambient import run_ambient
        run_ambient(ctx, ['goal'])
