"""C15 — a file writer's output depends only on its own inputs.

History + reference model: histories of writer constructions and writes (two or three writers with different formats
and precisions, reused writers, SKIP mode); the model for each write event is the byte string produced by a FRESH writer
with the same arguments used in ISOLATION in a clean child process (vf.c15_ref; date stamps normalised)."""
import itertools
import os
import subprocess
import sys

CLAIM = True
RULE = ("writers over (format in {XML, protobuf}) x (precision in 1..12) x 2 generated scenarios with 12-digit "
        "fractions; events construct(Wi), write_to_file(Wi), write_scenario_to_file(Wi), write_to_file(Wi, SKIP) on an "
        "existing file; exhaustive over all valid histories of length <= 3 (quick) / <= 4 (thorough) over 2 writers "
        "for several configuration pairs, random histories of length <= 12 over 3 writers; every produced file is "
        "compared byte-for-byte (dates normalised) with the isolated reference; SKIP compares content and mtime. "
        "distinct = (configuration pair, history); non-trivial = history with >=2 writes or >=2 writers")
ANCHORS = ["XMLFileWriter.write_to_file", "XMLFileWriter.write_scenario_to_file", "ProtobufFileWriter.write_to_file",
           "ProtobufFileWriter.write_scenario_to_file", "FileWriter._handle_file_path", "float_to_str"]
REQUIRED = ["history.with-validity-check.dangling-sign-references", "event.write-checked", "event.construct", "event.write", "event.write-scenario", "event.skip", "skip.existing-empty", "skip.existing-bytes", "same-writer-twice",
            "other-writer-constructed-in-between", "other-format-in-between", "identically-constructed-second-writer",
            "reference-read-back-ok", "target.file-of-previous-write.pb", "target.file-of-previous-write.xml",
            "target.existing-longer-file.pb", "target.existing-longer-file.xml", "skip.default-file-name.xml",
            "skip.default-file-name.pb", "skip.write_scenario_to_file", "skip.write_scenario_to_file.xml",
            "skip.write_scenario_to_file.pb"]
EXHAUSTIVE = {"quick": "all valid event histories of length <= 3 over 2 writers x 4 configuration pairs",
              "thorough": "all valid event histories of length <= 4 over 2 writers x 8 configuration pairs"}
ASSUMPTIONS = ["the reference is the output of a fresh writer in a clean child process with the same PYTHONHASHSEED "
               "(set iteration order is part of neither writer's inputs)",
               "date stamps (XML date attribute, protobuf information.date) are normalised"]
SHARDS = {"quick": 4, "thorough": 16}
TIMEOUT = {"quick": 1500, "thorough": 7200}


def run(ctx):
    from vf import c15_ref, io
    verif = os.path.dirname(os.path.dirname(os.path.dirname(os.path.abspath(__file__))))
    tmp = io.tmpdir()
    scen = {}
    refs = {}

    def scenario(seed):
        if seed not in scen:
            scen[seed] = c15_ref.build(seed)
        return scen[seed]

    def reference(seed, fmt, prec, method):
        key = (seed, fmt, prec, method)
        if key not in refs:
            out = os.path.join(tmp, "ref_%d_%s_%d_%s_%d" % (seed, fmt, prec, method, os.getpid()))
            env = dict(os.environ)
            r = subprocess.run([sys.executable, "-m", "vf.c15_ref", str(seed), fmt, str(prec), method, out], cwd=verif,
                               env=env, capture_output=True, text=True, timeout=300)
            if r.returncode != 0 or not os.path.exists(out):
                refs[key] = ("error", (r.stderr or "")[-400:])
            else:
                with open(out, "rb") as f:
                    refs[key] = ("ok", f.read())
                os.remove(out)
                if method == "full":
                    # the isolated reference itself must read back (C01/C02 judge its content)
                    p = out + (".xml" if fmt == "xml" else ".pb")
                    try:
                        sc, pps = scenario(seed)
                        w = c15_ref.make_writer(sc, pps, fmt, prec)
                        c15_ref.write(w, "full", p)
                        io.read(p)
                        ctx.feature("reference-read-back-ok")
                    except Exception as e:  # noqa
                        ctx.counter("reference-read-back-failed:" + type(e).__name__)
                    finally:
                        if os.path.exists(p):
                            os.remove(p)
        return refs[key]

    skip_n = [0]
    hist_n = [0]

    def run_history(cfgs, events, seed, tag):
        """cfgs: {name: (fmt, precision)}, events: list of (kind, name)"""
        sc, pps = scenario(seed)
        writers, last_writer, formats_seen = {}, None, set()
        writes_by = {}
        trace = []
        constructed_after_last_write_of = {}
        kept = {}  # format -> longest raw file this history has produced so far
        hist_n[0] += 1
        for kind, name in events:
            trace.append([kind, name, list(cfgs[name])])
            fmt, prec = cfgs[name]
            wit = {"configs": {k: list(v) for k, v in cfgs.items()}, "history": list(trace), "scenario_seed": seed}
            try:
                if kind == "construct":
                    ctx.feature("event.construct")
                    if any(cfgs[n] == cfgs[name] for n in writers if n != name):
                        ctx.feature("identically-constructed-second-writer")
                    writers[name] = c15_ref.make_writer(sc, pps, fmt, prec)
                    for n in writers:
                        if n != name:
                            constructed_after_last_write_of[n] = True
                            if cfgs[n][0] != fmt:
                                ctx.feature("other-format-in-between")
                    continue
                if name not in writers:
                    continue
                w = writers[name]
                # one file name per writer and history: a writer meets the SAME name again (written before with ALWAYS,
                # skipped before, ...); what it does there depends on the mode of the current call only
                path = os.path.join(tmp, "c15_%d_%d_%s%s" % (os.getpid(), hist_n[0], name, ".xml" if fmt == "xml" else ".pb"))
                if kind in ("write", "write-scenario", "write-checked"):
                    # the target of an ALWAYS write: a new file name, the file the previous write of this history left
                    # behind (typically longer: write_to_file, then write_scenario_to_file to the same name), or an
                    # existing longer file with foreign content -- the produced content must not depend on it
                    target = ("new", "left-by-previous-write", "foreign-longer")[(len(trace) + seed) % 3]
                    if target == "left-by-previous-write" and kept.get(fmt):
                        with open(path, "wb") as f:
                            f.write(kept[fmt])
                        ctx.feature("target.file-of-previous-write." + fmt)
                    elif target != "new":
                        with open(path, "wb") as f:
                            f.write((b"<!-- foreign -->\n" if fmt == "xml" else b"\x0a\x07foreign") * 4096)
                        ctx.feature("target.existing-longer-file." + fmt)
                    wit["target"] = target
                    ctx.feature("event." + kind)
                    if writes_by.get(name):
                        ctx.feature("same-writer-twice")
                    if constructed_after_last_write_of.get(name):
                        ctx.feature("other-writer-constructed-in-between")
                    method = "scenario" if kind == "write-scenario" else "full"
                    c15_ref.write(w, "full-checked" if kind == "write-checked" else method, path)
                    writes_by[name] = writes_by.get(name, 0) + 1
                    with open(path, "rb") as f:
                        raw = f.read()
                    os.remove(path)
                    if len(raw) > len(kept.get(fmt, b"")):
                        kept[fmt] = raw
                    try:
                        data = c15_ref.normalise(raw, fmt)
                    except Exception as e:  # noqa
                        data = b"<unparseable: %s>" % type(e).__name__.encode()
                    ctx.evaluation()
                    ref = reference(seed, fmt, prec, method)
                    if ref[0] != "ok":
                        ctx.violation("C15/reference-writer-failed", ref[1], wit)
                        return
                    if data != ref[1]:
                        nth = "first-write" if writes_by[name] == 1 else "repeated-write"
                        other = "other-writer-constructed-before" if constructed_after_last_write_of.get(name) or \
                            len(writers) > 1 else "single-writer"
                        detail = "size %d vs isolated %d" % (len(data), len(ref[1]))
                        if fmt == "xml":
                            a, b = data.split(b"\n"), ref[1].split(b"\n")
                            for x, y in zip(a, b):
                                if x != y:
                                    detail += "; first differing line: %r vs isolated %r" % (x[:80], y[:80])
                                    break
                        ctx.violation("C15/content-differs-from-isolated-writer/%s/%s/%s/%s" % (fmt, kind, nth, other),
                                      detail, wit)
                    constructed_after_last_write_of[name] = False
                elif kind == "skip":
                    from commonroad.common.file_writer import OverwriteExistingFile
                    ctx.feature("event.skip")
                    skip_n[0] += 1
                    existing = [b"existing content \x00\x01 must stay", b"", b"\n", b"<?xml version='1.0'?><commonRoad/>",
                                bytes(range(256)) * 40][skip_n[0] % 5]
                    ctx.feature("skip.existing-" + ["bytes", "empty", "newline", "xml-stub", "10k-binary"][skip_n[0] % 5])
                    import contextlib
                    import io as _io
                    import shutil
                    default_name = skip_n[0] % 3 == 2
                    skip_scenario_only = skip_n[0] % 2 == 1
                    cwd0, wd = os.getcwd(), None
                    if default_name:
                        # the file name is left to the writer (<benchmark id> + suffix in the working directory)
                        wd = os.path.join(tmp, "c15_cwd_%d_%d" % (os.getpid(), len(trace)))
                        os.makedirs(wd, exist_ok=True)
                        path = os.path.join(wd, str(sc.scenario_id) + (".xml" if fmt == "xml" else ".pb"))
                        ctx.feature("skip.default-file-name." + fmt)
                    with open(path, "wb") as f:
                        f.write(existing)
                    os.utime(path, (1000000000, 1000000000))
                    before = (open(path, "rb").read(), os.stat(path).st_mtime_ns)
                    try:
                        if default_name:
                            os.chdir(wd)
                        with contextlib.redirect_stdout(_io.StringIO()):
                            if skip_scenario_only and (fmt == "pb" or not default_name):
                                # (XML's write_scenario_to_file derives a default name WITHOUT suffix: with the default name
                                # it would address another file, so that combination is exercised for protobuf only)
                                ctx.feature("skip.write_scenario_to_file")
                                ctx.feature("skip.write_scenario_to_file." + fmt)
                                w.write_scenario_to_file(None if default_name else path, OverwriteExistingFile.SKIP)
                            else:
                                w.write_to_file(None if default_name else path, OverwriteExistingFile.SKIP)
                    finally:
                        os.chdir(cwd0)
                    after = (open(path, "rb").read(), os.stat(path).st_mtime_ns)
                    os.remove(path)
                    if wd is not None:
                        others = sorted(os.listdir(wd))
                        shutil.rmtree(wd, ignore_errors=True)
                        if others:
                            ctx.violation("C15/skip-mode-wrote-another-file/" + fmt, repr(others), wit)
                    ctx.evaluation()
                    if before != after:
                        ctx.violation("C15/skip-mode-touched-existing-file/" + fmt,
                                      "content changed: %s, mtime changed: %s" % (before[0] != after[0],
                                                                                  before[1] != after[1]), wit)
            except Exception as e:  # noqa
                ctx.violation("C15/%s/raises-%s/%s" % (kind, type(e).__name__, fmt), repr(e)[:300], wit)
                return

    pairs = [{"A": ("xml", 2), "B": ("xml", 9)}, {"A": ("xml", 4), "B": ("pb", 4)}, {"A": ("pb", 4), "B": ("xml", 7)},
             {"A": ("xml", 5), "B": ("xml", 5)}]
    if not ctx.quick:
        pairs += [{"A": ("xml", 12), "B": ("xml", 1)}, {"A": ("pb", 1), "B": ("pb", 12)}, {"A": ("xml", 3), "B": ("pb", 11)},
                  {"A": ("xml", 8), "B": ("xml", 6)}]
    alphabet = [("construct", "A"), ("construct", "B"), ("write", "A"), ("write", "B"), ("write-scenario", "A"),
                ("write-scenario", "B"), ("skip", "A")]
    depth = ctx.pick(3, 4)
    hists = []
    for d in range(2, depth + 1):
        for seq in itertools.product(range(len(alphabet)), repeat=d):
            ev = [alphabet[k] for k in seq]
            # valid: every write is preceded by the construction of its writer; at least one write
            ok, made = True, set()
            for kind, name in ev:
                if kind == "construct":
                    made.add(name)
                elif name not in made:
                    ok = False
                    break
            if ok and any(k != "construct" for k, _ in ev):
                hists.append(ev)
    plans = [(pi, h) for pi in range(len(pairs)) for h in hists]
    for i, rng in ctx.cases("exhaustive", len(plans)):
        pi, h = plans[i]
        ctx.fingerprint(["ex", pi, h])
        if i % 501 == 0:
            ctx.sample({"configs": pairs[pi], "history": h})
        run_history(pairs[pi], h, seed=1 + (i % 4), tag="ex")
    # ------------------------------------------------------------------------- equal arguments, built differently
    # "a second writer constructed identically": the tags are handed over as a SET; two sets with the same members are
    # the same argument, in whatever order the members were inserted (sets of the same members may iterate differently)
    import itertools as _it
    from commonroad.common.file_writer import CommonRoadFileWriter
    from commonroad.common.util import FileFormat
    from commonroad.scenario.scenario import Tag
    twins = []
    for a_, b_, c_ in _it.combinations(sorted(Tag, key=lambda t: t.name), 3):
        for perm in ((c_, b_, a_), (b_, a_, c_), (b_, c_, a_)):
            s1, s2 = set(), set()
            for t_ in (a_, b_, c_):
                s1.add(t_)
            for t_ in perm:
                s2.add(t_)
            if list(s1) != list(s2):
                twins.append((s1, s2))
                break
        if len(twins) >= 6:
            break
    ctx.notes["tag-sets-iterating-differently-found"] = len(twins)
    for i, rng in ctx.cases("equal-tag-sets", len(twins) * 2):
        s1, s2 = twins[i // 2]
        fmt = ("xml", "pb")[i % 2]
        sc, pps = scenario(1 + i % 4)
        outs = []
        ctx.evaluation()
        ctx.feature("equal-tag-sets-with-different-iteration-order")
        ctx.fingerprint(["tags", i, sorted(t.name for t in s1), fmt])
        try:
            for k_, tg in enumerate((s1, s2)):
                w = CommonRoadFileWriter(sc, pps, tags=tg, decimal_precision=4,
                                         file_format=FileFormat.XML if fmt == "xml" else FileFormat.PROTOBUF)
                path = os.path.join(tmp, "c15_tags_%d_%d_%d%s" % (os.getpid(), i, k_, ".xml" if fmt == "xml" else ".pb"))
                c15_ref.write(w, "full", path)
                with open(path, "rb") as f:
                    outs.append(c15_ref.normalise(f.read(), fmt))
                os.remove(path)
        except Exception as e:  # noqa
            ctx.violation("C15/equal-tag-sets/raises-%s/%s" % (type(e).__name__, fmt), repr(e)[:200], {"tags": sorted(
                t.name for t in s1)})
            continue
        if outs[0] != outs[1]:
            ctx.violation("C15/content-depends-on-insertion-order-of-the-tag-set/" + fmt,
                          "two writers given equal tag sets %s (inserted in different orders) wrote different content" %
                          sorted(t.name for t in s1), {"tags": sorted(t.name for t in s1), "order_1": [t.name for t in s1],
                                                       "order_2": [t.name for t in s2]})
    # the optional validity check of the XML writer, on scenarios whose lanelets name signs / lights outside the network
    # (cut-outs without id clean-up) and on ordinary ones: checked and unchecked writes give the same content, before and after
    scripted = [[("construct", "A"), ("construct", "B"), ("write", "B"), ("write-checked", "A"), ("write", "A"), ("write", "B")],
                [("construct", "A"), ("write-checked", "A"), ("write-checked", "A"), ("construct", "B"), ("write", "B"),
                 ("write-scenario", "A")],
                [("construct", "B"), ("construct", "A"), ("write", "A"), ("write-checked", "B"), ("write", "A")]]
    for i, rng in ctx.cases("validity-check", len(scripted) * 4):
        ev = scripted[i % len(scripted)]
        cfgs = [{"A": ("xml", 4), "B": ("pb", 4)}, {"A": ("xml", 6), "B": ("xml", 2)}][(i // len(scripted)) % 2]
        sd_ = [1, 4, 2, 1][i // len(scripted) % 4]
        ctx.fingerprint(["checked", i])
        ctx.feature("history.with-validity-check" + (".dangling-sign-references" if sd_ % 3 == 1 else ""))
        run_history(cfgs, ev, seed=sd_, tag="checked")
    n = ctx.pick(60, 3000)
    for i, rng in ctx.cases("random", n):
        cfgs = {k: (rng.choice(["xml", "xml", "pb"]), rng.randint(1, 12)) for k in "ABC"}
        ev = [("construct", rng.choice("ABC"))]
        for _ in range(rng.randint(3, 11)):
            ev.append((rng.choice(["construct", "write", "write", "write-scenario", "skip", "write-checked"]),
                       rng.choice("ABC")))
        ctx.fingerprint(["rnd", sorted(cfgs.items()), ev])
        run_history(cfgs, ev, seed=1 + (i % 6), tag="rnd")
