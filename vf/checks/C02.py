"""C02 — protobuf write -> read is lossless (monitor: vf.monitors.roundtrip on ProtobufFileWriter.write_to_file; reals are
compared bit-identically)."""
CLAIM = True
RULE = ("the C01 generator restricted to enumeration members whose NAME exists in the shipped .proto enums (computed from "
        "the _pb2 descriptors at run time) and to state attributes the State message has, plus what only public "
        "constructors produce: obstacles with default arguments (signal_series=None, no initial signal state), dynamic "
        "obstacles without prediction, phantom obstacles without prediction, static obstacles with signal states, goal "
        "regions where only some goal states have lanelets, first occurrences of signs. distinct = structural "
        "fingerprint; non-trivial = has >=1 obstacle or sign/light")
ANCHORS = ["ProtobufFileWriter.write_to_file", "ProtobufFileReader.open"]
REQUIRED = ["one-writer.scenario-edited-between-writes", "environment.time-with-date", "light.cycle-without-elements", "trajectories-of-nested-state-classes.KSState-then-STState", "trajectories-of-nested-state-classes.MBState-then-KSState",
            "geo-transformation.non-neutral-parameters=s", "geo-transformation.non-neutral-parameters=r",
            "geo-transformation.non-neutral-parameters=", "contract.pb.write_to_file", "role.static", "role.dynamic", "role.phantom", "role.environment",
            "prediction.trajectory", "prediction.set", "prediction.none", "dynamic.default-arguments",
            "phantom.no-prediction", "static.signals", "sign.virtual.True", "light.active.False",
            "light.offset.positive", "goal.position.lanelets", "goal.lanelets-after-positionless-goal-state", "lanelet.3d", "light.without-cycle",
            "sign-or-light.without-position", "stopline.without-points", "one-writer-several-files", "retry-after-failed-write",
            "contract.pb.write_scenario_to_file",
            "sign.first-occurrence-on-non-referencing-lanelet", "value.interval", "initial.position.region",
            "traj-class.PMState", "fixture-file"]
ASSUMPTIONS = ["derived data is not compared (center vertices, light colours, lanelet assignments)",
               "None and empty are the same for optional id sets and series"]
SHARDS = {"quick": 4, "thorough": 16}


def run(ctx):
    from vf.checks._rt import drive
    n = ctx.pick(300, 20000)
    drive(ctx, "pb", n, lambda i: [4], fixture_precisions=(4,))

    # ambient workload (thorough tier): the repository's own tests with the contracts installed
    if not ctx.quick and ctx.shard == 0 and ctx.only is None:
        from vf.ambient import run_ambient
        run_ambient(ctx, ['roundtrip'])
