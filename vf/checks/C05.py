"""C05 — translate_rotate is the exact rigid motion on every object.

Monitors: vf.monitors.rigid (icontract snapshot + postcondition on every translate_rotate in the library: every stored
point / ring / orientation / interval must be the independently computed image, rigid invariants preserved).  The
driver builds every class of object, applies (t, a) from a hostile angle pool, then applies the inverse motion and
compares with the first snapshot; exceptions are violations of 'never fails'."""
import copy
import math

CLAIM = True
RULE = ("every class with a translate_rotate (4 shapes, all state classes incl. point-mass and uncertain, trajectory, "
        "occupancy, both predictions, static/dynamic/phantom/environment obstacles, stop line, lanelet, sign, light, "
        "network, scenario with every obstacle role at once, goal region, planning problem (set)) x translations "
        "(0, small, 1e4 scale) x angle pool (0, +-1e-9, +-0.01, +-0.05, +-0.0500001, k*pi/2, +-pi, +-2pi, random); "
        "then the inverse motion. distinct = (class, seed, translation kind, angle); non-trivial = angle != 0")
ANCHORS = ["translation_rotation_matrix", "Rectangle.translate_rotate", "Polygon.translate_rotate",
           "State.translate_rotate", "Lanelet.translate_rotate", "StopLine.translate_rotate",
           "LaneletNetwork.translate_rotate", "Scenario.translate_rotate", "GoalRegion.translate_rotate",
           "PlanningProblem.translate_rotate", "PlanningProblemSet.translate_rotate", "TrafficSign.translate_rotate",
           "TrafficLight.translate_rotate", "DynamicObstacle.translate_rotate", "StaticObstacle.translate_rotate",
           "PhantomObstacle.translate_rotate", "Occupancy.translate_rotate", "Trajectory.translate_rotate"]
REQUIRED = ["angle-class.small-angle(|a|<=0.05)", "angle-class.general-angle", "angle-class.zero-angle",
            "class.Scenario", "class.PlanningProblemSet", "class.PMState", "class.EnvironmentObstacle",
            "scenario-has-all-roles", "undo", "uncertain-state", "goal-state-without-position",
            "contract.translate_rotate.Scenario", "contract.translate_rotate.LaneletNetwork",
            "contract.translate_rotate.GoalRegion", "contract.translate_rotate.containment-probe",
            "part.Trajectory-in-DynamicObstacle",
            "part.Trajectory-in-Scenario", "part.LaneletNetwork-in-Scenario", "part-with-derived-occupancies",
            "class.NetworkSharedArrays", "class.PlanningProblemsWithCommonGoal", "class.NetworkWithPositionlessSignAndLight", "class.IntDtype", "class.LaneletWithPointlessStopLine", "shared-components.move-network",
            "shared-components.move-obstacle-1"]
ASSUMPTIONS = ["tolerance 1e-11*(1+|p|+|t|) on points of the image (1e-8 for undo), 1e-10 on angles (mod 2pi)",
               "obstacle history lists and areas are not in the statement's list and are not compared"]
SHARDS = {"quick": 4, "thorough": 16}
TWO_PI = 2 * math.pi

CLASSES = ["Rectangle", "Circle", "Polygon", "ShapeGroup", "InitialState", "KSState", "STState", "MBState", "KSTState",
           "ExtendedPMState", "PMState", "CustomState", "UncertainState", "Trajectory", "TrajectoryPM", "Occupancy",
           "SetBasedPrediction", "TrajectoryPrediction", "StaticObstacle", "DynamicObstacle", "PhantomObstacle",
           "EnvironmentObstacle", "StopLine", "Lanelet", "TrafficSign", "TrafficLight", "LaneletNetwork", "Scenario",
           "GoalRegion", "PlanningProblem", "PlanningProblemSet", "PlanningProblemsWithCommonGoal", "NetworkWithPositionlessSignAndLight", "NetworkSharedArrays",
           "IntDtype",
           "LaneletWithPointlessStopLine", "ObstacleWithUncertainRegionTrajectory"]


def angle_pool(rng):
    base = [0.0, 0, 1e-9, -1e-9, 9e-9, -5e-9, 1e-8, 2e-8, -3e-7, 1e-4, -0.01, 0.03, 0.05, -0.05, 0.0500001, -0.0500001, 0.06, math.pi / 2, -math.pi / 2,
            math.pi, -math.pi, 3 * math.pi / 2, TWO_PI, -TWO_PI, 1.0, -2.5, 1]
    return base + [rng.uniform(-0.06, 0.06) for _ in range(3)] + [rng.uniform(-TWO_PI, TWO_PI) for _ in range(4)]


def _pm_velocity(rng):
    """velocity vector of a point-mass state: general, or exactly along one axis (one component 0 / 0.0 / -0.0)"""
    k = rng.randrange(6)
    v = rng.choice([8.0, -3.5, 0.25, rng.uniform(-9, 9)])
    z = rng.choice([0.0, -0.0, 0])
    if k == 1:
        return v, z
    if k == 3:
        return z, v
    return rng.uniform(-9, 9), rng.uniform(-9, 9)


def make(name, G, rng):
    import numpy as np
    import commonroad.scenario.state as st
    from commonroad.common.util import AngleInterval
    if name in ("Rectangle", "Circle", "Polygon"):
        return getattr(G, name.lower())()
    if name == "ShapeGroup":
        return G.shape_group()
    if name == "PMState":
        vx, vy = _pm_velocity(rng)
        return st.PMState(time_step=1, position=G.pos(), velocity=vx, velocity_y=vy)
    if name == "CustomState":
        return G.custom_state(2)
    if name == "UncertainState":
        return st.KSState(time_step=3, position=G.basic_shape(), orientation=G.angle_interval(), velocity=3.0,
                          steering_angle=0.1)
    if name in ("InitialState", "KSState", "STState", "MBState", "KSTState", "ExtendedPMState"):
        return G.state(name, 1)
    if name == "Trajectory":
        return G.trajectory(rng.choice(["KSState", "STState", "MBState"]), 1)
    if name == "TrajectoryPM":
        from commonroad.scenario.trajectory import Trajectory
        vs = [_pm_velocity(rng) for _ in range(3)]
        return Trajectory(1, [st.PMState(time_step=1 + k, position=G.pos(), velocity=vs[k][0], velocity_y=vs[k][1])
                              for k in range(3)])
    if name == "Occupancy":
        return G.occupancy(3)
    if name == "SetBasedPrediction":
        return G.set_based_prediction()
    if name == "TrajectoryPrediction":
        return G.trajectory_prediction()
    if name == "StaticObstacle":
        o = G.static_obstacle(5)
        c_ = rng.random()
        if c_ < 0.3:
            o.initial_state.position = G.basic_shape()
            o.initial_state = o.initial_state
        elif c_ < 0.55:
            # exactly at the origin (e.g. the ego vehicle's frame): a pure rotation leaves the position where it is
            o.initial_state = o.initial_state.translate_rotate(-np.asarray(o.initial_state.position, dtype=float), 0.0)
        return o
    if name == "DynamicObstacle":
        o = G.dynamic_obstacle(6)
        if rng.random() < 0.25 and isinstance(o.initial_state.position, np.ndarray):
            o.initial_state = o.initial_state.translate_rotate(-np.asarray(o.initial_state.position, dtype=float), 0.0)
        return o
    if name == "ObstacleWithUncertainRegionTrajectory":
        # predicted states whose position is a region that is NOT symmetric about the middle of its bounding box (a
        # triangle), with an exact heading: the occupancy is a box in the heading frame around region and shape
        from commonroad.geometry.shape import Polygon, Rectangle
        from commonroad.prediction.prediction import TrajectoryPrediction
        from commonroad.scenario.obstacle import DynamicObstacle, ObstacleType
        from commonroad.scenario.trajectory import Trajectory
        states = []
        for k in range(3):
            p = np.asarray(G.pos(), dtype=float)
            tri = Polygon(np.array([p, p + np.array([rng.uniform(2, 5), 0.0]), p + np.array([0.0, rng.uniform(1, 4)])]))
            states.append(st.KSState(time_step=1 + k, position=tri, orientation=rng.choice([0.7, -2.0, 1.5, 3.0]),
                                     velocity=2.0, steering_angle=0.0))
        shape = Rectangle(4.0, 1.8)
        return DynamicObstacle(9, ObstacleType.CAR, shape, st.InitialState(
            time_step=0, position=np.asarray(G.pos(), dtype=float), orientation=0.2, velocity=2.0),
            TrajectoryPrediction(Trajectory(1, states), shape))
    if name == "PhantomObstacle":
        return G.phantom_obstacle(7)
    if name == "EnvironmentObstacle":
        return G.environment_obstacle(8)
    if name == "StopLine":
        return G.stop_line()
    if name == "Lanelet":
        return G.lanelet(3, full=True)
    if name == "TrafficSign":
        return G.traffic_sign(4)
    if name == "TrafficLight":
        return G.traffic_light(5, full=rng.random() < 0.5)
    if name == "LaneletNetwork":
        return G.lanelet_network()
    if name == "Scenario":
        sc = G.scenario(with_objects=False)
        net = G.lanelet_network()
        sc.add_objects(net)
        G.lanelet_pool = [la.lanelet_id for la in net.lanelets]
        sc.add_objects(G.static_obstacle(1001))
        sc.add_objects(G.dynamic_obstacle(1002, prediction_kind="trajectory"))
        sc.add_objects(G.dynamic_obstacle(1005, prediction_kind="set"))
        sc.add_objects(G.phantom_obstacle(1003))
        sc.add_objects(G.environment_obstacle(1004))
        return sc
    if name == "LaneletWithPointlessStopLine":
        # start and end of a stop line are optional
        from commonroad.common.common_lanelet import LineMarking, StopLine
        la = G.lanelet(3, full=True)
        la.stop_line = StopLine(None, None, LineMarking.SOLID, {5}, None)
        return la
    if name == "NetworkWithPositionlessSignAndLight":
        # the position of a sign / light is optional (a light without position is what the readers produce when the file
        # gives none): there is nothing to move, the rest of the network moves as usual
        from commonroad.scenario.lanelet import LaneletNetwork
        from commonroad.scenario.traffic_light import TrafficLight
        from commonroad.scenario.traffic_sign import TrafficSign, TrafficSignElement, TrafficSignIDZamunda
        net = LaneletNetwork()
        net.add_lanelet(G.lanelet(1, full=False))
        net.add_traffic_sign(TrafficSign(11, [TrafficSignElement(TrafficSignIDZamunda.MAX_SPEED, ["50"])], {1}, None), {1})
        net.add_traffic_light(TrafficLight(12, None, G.traffic_light(99, full=True).traffic_light_cycle), {1})
        return net
    if name == "NetworkSharedArrays":
        # objects that were built from the SAME array objects (adjacent lanelets sharing their common boundary, a sign and
        # a light on one pole): every one of them is moved exactly once
        from commonroad.scenario.lanelet import Lanelet, LaneletNetwork
        from commonroad.scenario.traffic_light import TrafficLight
        from commonroad.scenario.traffic_sign import TrafficSign, TrafficSignElement, TrafficSignIDZamunda
        x0, y0 = rng.uniform(-50, 50), rng.uniform(-50, 50)
        xs = [x0 + 5.0 * k for k in range(4)]
        b0 = np.array([[x, y0] for x in xs])
        b1 = np.array([[x, y0 + 3.0] for x in xs])
        b2 = np.array([[x, y0 + 6.0] for x in xs])
        net = LaneletNetwork()
        # ... and ONE stop line object across both adjacent lanes
        from commonroad.common.common_lanelet import LineMarking, StopLine
        sl = StopLine(b0[-1].copy(), b2[-1].copy(), LineMarking.SOLID)
        net.add_lanelet(Lanelet(b1, (b0 + b1) / 2, b0, 1, adjacent_left=2, adjacent_left_same_direction=True, stop_line=sl))
        net.add_lanelet(Lanelet(b2, (b1 + b2) / 2, b1, 2, adjacent_right=1, adjacent_right_same_direction=True, stop_line=sl))
        pole = np.array([x0 + 1.0, y0 - 1.0])
        net.add_traffic_sign(TrafficSign(11, [TrafficSignElement(TrafficSignIDZamunda.MAX_SPEED, ["50"])], {1}, pole), {1})
        net.add_traffic_light(TrafficLight(12, pole, G.traffic_light(99, full=True).traffic_light_cycle), {1})
        return net
    if name == "IntDtype":
        # integer-valued coordinates handed over as integer-dtype arrays
        from commonroad.scenario.lanelet import Lanelet, LaneletNetwork
        from commonroad.scenario.traffic_light import TrafficLight
        from commonroad.scenario.traffic_sign import TrafficSign, TrafficSignElement, TrafficSignIDZamunda
        x0, y0 = rng.randint(-50, 50), rng.randint(-50, 50)
        c = np.array([[x0 + 5 * k, y0 + k] for k in range(4)], dtype=int)
        net = LaneletNetwork()
        net.add_lanelet(Lanelet(c + np.array([0, 2]), c, c - np.array([0, 2]), 1))
        net.add_traffic_sign(TrafficSign(11, [TrafficSignElement(TrafficSignIDZamunda.MAX_SPEED, ["50"])], {1},
                                         np.array([x0 + 12, y0 + 3])), {1})
        net.add_traffic_light(TrafficLight(12, np.array([x0 - 2, y0 + 7]),
                                           G.traffic_light(99, full=True).traffic_light_cycle), {1})
        return net
    if name == "GoalRegion":
        g = G.goal_region()
        return g
    if name == "PlanningProblem":
        return G.planning_problem(1)
    if name == "PlanningProblemSet":
        return G.planning_problem_set(n=rng.randint(1, 3))
    if name == "PlanningProblemsWithCommonGoal":
        # several vehicles with one common destination: the planning problems were given the SAME goal region object
        from commonroad.planning.planning_problem import PlanningProblem, PlanningProblemSet
        goal = G.goal_region()
        return PlanningProblemSet([PlanningProblem(70 + k, G.state("InitialState", 0), goal) for k in range(rng.randint(2, 3))])
    raise ValueError(name)


def run(ctx):
    import numpy as np
    from vf import monitors
    from vf.gen.objects import Gen
    from vf.monitors import rigid
    from vf.oracle import spatial
    monitors.set_sink(ctx)
    rigid.install()

    n = ctx.pick(len(CLASSES) * 20, len(CLASSES) * 5000)
    for i, rng in ctx.cases("objects", n):
        name = CLASSES[i % len(CLASSES)]
        G = Gen(rng)
        try:
            obj = make(name, G, rng)
        except Exception as e:  # noqa
            ctx.violation("C05/construct/%s/raises-%s" % (name, type(e).__name__), repr(e), {"class": name})
            continue
        ctx.feature("class." + name)
        if name == "Scenario":
            ctx.feature("scenario-has-all-roles")
        if name == "UncertainState":
            ctx.feature("uncertain-state")
        if name in ("GoalRegion", "PlanningProblem", "PlanningProblemSet"):
            ex = spatial.extract(obj)
            if any(".orientation" in p and not any(q.startswith(p.rsplit(".", 1)[0] + ".position") for q, _, _ in ex)
                   for p, k, _ in ex if k == "ainterval"):
                ctx.feature("goal-state-without-position")
        angles = angle_pool(rng)
        trans = [np.array([0.0, 0.0]), np.array([rng.uniform(-5, 5), rng.uniform(-5, 5)]),
                 np.array([rng.uniform(-2e4, 2e4), rng.uniform(-2e4, 2e4)]), [1.5, -2.0]]
        picks = [(trans[rng.randrange(len(trans))], angles[(i // len(CLASSES) + j * 7) % len(angles)]) for j in range(3)]
        if i < len(CLASSES) * 2:
            picks += [(trans[1], 0.03), (trans[2], -0.05)]
        for t, a in picks:
            ctx.evaluation()
            if a != 0:
                ctx.fingerprint([name, i, list(map(float, t)), float(a)])
            o = copy.deepcopy(obj)
            try:
                before = spatial.extract(o)
            except Exception as e:  # noqa
                ctx.violation("C05/harness/extract-%s" % name, repr(e), {"class": name})
                break
            small = rigid.angle_class(a)
            wit = {"class": name, "translation": list(map(float, t)), "angle": float(a)}
            try:
                r = o.translate_rotate(t if not isinstance(t, list) else np.array(t), a)
                o2 = r if r is not None else o
            except Exception as e:  # noqa
                ctx.violation("C05/%s.translate_rotate/raises-%s" % (name, type(e).__name__), repr(e)[:300], wit)
                continue
            if i < 2 and a != 0:
                ctx.sample({"class": name, "translation": list(map(float, t)), "angle": float(a),
                            "components_checked": len(before)})
            # undo:  t' = -R(a) t, a' = -a
            try:
                c, s = math.cos(a), math.sin(a)
                t2 = np.array([-(c * t[0] - s * t[1]), -(s * t[0] + c * t[1])])
                r2 = o2.translate_rotate(t2, -a)
                o3 = r2 if r2 is not None else o2
                ctx.feature("undo")
                back = spatial.extract(o3)
                bad = spatial.compare(before, back, scale_extra=2 * (abs(t[0]) + abs(t[1])), tol=1e-8)
                for path, kind, e, g in bad[:1]:
                    ctx.violation("C05/%s.translate_rotate/undo-does-not-restore/%s/%s" % (
                        name, rigid.generalise(path), small), "%s: before %s after undo %s" % (path, e, g), wit)
            except Exception as e:  # noqa
                ctx.violation("C05/%s.translate_rotate/undo-raises-%s" % (name, type(e).__name__), repr(e)[:300], wit)

    # ------------------------------------------------------------------------------------------- parts of a whole
    # "...or any part of them": moving a PART in place (after the whole was read once, so that every derived value the
    # library keeps has been computed) moves exactly the components under that part, derived occupancies included.
    def parts_of(whole, name):
        from commonroad.prediction.prediction import TrajectoryPrediction
        ps = []
        if name == "TrajectoryPrediction":
            ps.append((".trajectory", whole.trajectory))
        elif name == "DynamicObstacle":
            if whole.prediction is not None:
                ps.append((".prediction", whole.prediction))
            if isinstance(whole.prediction, TrajectoryPrediction):
                ps.append((".prediction.trajectory", whole.prediction.trajectory))
        elif name == "Scenario":
            ps.append((".lanelet_network", whole.lanelet_network))
            for ob in whole.obstacles:
                pre = ".obstacle[%d]" % ob.obstacle_id
                ps.append((pre, ob))
                pr = getattr(ob, "prediction", None)
                if pr is not None:
                    ps.append((pre + ".prediction", pr))
                    if isinstance(pr, TrajectoryPrediction):
                        ps.append((pre + ".prediction.trajectory", pr.trajectory))
        elif name == "LaneletNetwork":
            for la in whole.lanelets[:3]:
                ps.append((".lanelet[%d]" % la.lanelet_id, la))
        elif name == "PlanningProblemSet":
            for k, pp in whole.planning_problem_dict.items():
                ps.append((".pp[%d]" % k, pp))
                ps.append((".pp[%d].goal" % k, pp.goal))
        elif name == "PlanningProblem":
            ps.append((".goal", whole.goal))
        return ps

    WHOLES = ["DynamicObstacle", "Scenario", "TrajectoryPrediction", "DynamicObstacle", "LaneletNetwork",
              "PlanningProblemSet", "PlanningProblem", "Scenario"]
    n = ctx.pick(160, 100000)
    for i, rng in ctx.cases("parts", n):
        name = WHOLES[i % len(WHOLES)]
        G = Gen(rng)
        try:
            whole = G.dynamic_obstacle(6, prediction_kind="trajectory") if name == "DynamicObstacle" and i % 16 < 8 \
                else make(name, G, rng)
            ps = parts_of(whole, name)
            if not ps:
                continue
            # which kind of part is moved cycles with the case index (coverage by construction); random among equals
            want = ["Trajectory", "TrajectoryPrediction", "LaneletNetwork", "DynamicObstacle", "SetBasedPrediction",
                    "StaticObstacle", None][(i // len(WHOLES)) % 7]
            cand = [x for x in ps if type(x[1]).__name__ == want] or ps
            prefix, part = cand[rng.randrange(len(cand))]
            before = spatial.extract(whole)
        except Exception as e:  # noqa
            ctx.violation("C05/harness/parts-%s-%s" % (name, type(e).__name__), repr(e)[:200], {"class": name})
            continue
        a = rng.choice([0.03, -0.05, 1.0, -2.5, math.pi / 2, rng.uniform(-TWO_PI, TWO_PI)])
        t = np.array([rng.uniform(-30, 30), rng.uniform(-30, 30)])
        pname = type(part).__name__
        ctx.evaluation()
        ctx.fingerprint(["part", name, i, prefix, float(a)])
        ctx.feature("part.%s-in-%s" % (pname, name))
        if any(p.startswith(prefix) and "~occupancy" in p for p, _, _ in before):
            ctx.feature("part-with-derived-occupancies")
        wit = {"whole": name, "part": prefix, "translation": list(map(float, t)), "angle": float(a)}
        try:
            part.translate_rotate(t, a)
            after = spatial.extract(whole)
        except Exception as e:  # noqa
            ctx.violation("C05/part/%s-in-%s/raises-%s" % (pname, name, type(e).__name__), repr(e)[:200], wit)
            continue
        inside = [it for it in before if it[0].startswith(prefix)]
        mv = dict((p_, v) for p_, _, v in spatial.moved(inside, (float(t[0]), float(t[1])), float(a)))
        exp = [(p_, k, mv[p_]) if p_ in mv else (p_, k, v) for p_, k, v in before]
        for path, kind, e, g in spatial.compare(exp, after, scale_extra=abs(t[0]) + abs(t[1]))[:1]:
            where = "moved-part" if path.startswith(prefix) else "outside-part"
            ctx.violation("C05/part/%s-in-%s/%s/%s-not-as-expected/%s" % (
                pname, name, where, kind, "derived-occupancy" if "~occupancy" in path else "stored"),
                "%s: expected %s got %s" % (path, e, g), wit)

    # ------------------------------------------------------------------------- objects that share components
    # A goal region given by lanelets holds the polygons of those lanelets (this is how the XML reader builds it); two
    # obstacles may be given the same shape / state objects. Moving ONE object moves that object only.
    from commonroad.common.util import Interval
    from commonroad.geometry.shape import ShapeGroup
    from commonroad.planning.goal import GoalRegion
    import commonroad.scenario.state as st_
    n = ctx.pick(60, 6000)
    for i, rng in ctx.cases("shared-components", n):
        G = Gen(rng)
        a = rng.choice([0.3, -1.2, math.pi / 2, 3.0])
        t = np.array([rng.uniform(-40, 40), rng.uniform(-40, 40)])
        wit = {"translation": list(map(float, t)), "angle": float(a)}
        try:
            net = G.lanelet_network()
            las = net.lanelets[: rng.randint(1, min(2, len(net.lanelets)))]
            goal = GoalRegion([st_.CustomState(time_step=Interval(0, 10), position=ShapeGroup([la.polygon for la in las]))],
                              {0: [la.lanelet_id for la in las]})
            o1, o2 = G.static_obstacle(11), G.dynamic_obstacle(12, prediction_kind="trajectory")
            o2.obstacle_shape = o1.obstacle_shape  # one shape object for two obstacles
            before = {"goal": spatial.extract(goal), "o1": spatial.extract(o1), "o2": spatial.extract(o2),
                      "net": spatial.extract(net)}
            mover = ["network", "obstacle-1", "goal"][i % 3]
            ctx.feature("shared-components.move-" + mover)
            ctx.evaluation()
            ctx.fingerprint(["shared", i, mover, float(a)])
            {"network": net, "obstacle-1": o1, "goal": goal}[mover].translate_rotate(t, a)
            after = {"goal": spatial.extract(goal), "o1": spatial.extract(o1), "o2": spatial.extract(o2),
                     "net": spatial.extract(net)}
        except Exception as e:  # noqa
            ctx.violation("C05/shared-components/raises-%s" % type(e).__name__, repr(e)[:200], wit)
            continue
        moved = {"network": "net", "obstacle-1": "o1", "goal": "goal"}[mover]
        for k in before:
            if k == moved:
                continue
            for path, kind, e, g in spatial.compare(before[k], after[k], scale_extra=0.0)[:1]:
                ctx.violation("C05/shared-components/moving-the-%s-also-moved-the-%s/%s" % (mover, {
                    "goal": "goal-region", "o1": "other-obstacle", "o2": "other-obstacle", "net": "network"}[k], kind),
                    "%s: before %s after %s" % (path, e, g), wit)

    # ambient workload (thorough tier): the repository's own tests with the contracts installed
    if not ctx.quick and ctx.shard == 0 and ctx.only is None:
        from vf.ambient import run_ambient
        run_ambient(ctx, ['rigid'])
