"""C20 — lanelet arc-length geometry, merging, and successor/predecessor route enumeration."""
import itertools
import math

CLAIM = True
RULE = ("lanelets from generated centre polylines (2..8 vertices, straight / curved / very short and very long "
        "segments, non-uniform spacing) x arc lengths (0, every vertex distance, midpoints, length, random); merge of "
        "connected pairs in both argument orders; successor/predecessor enumeration on ALL directed graphs without "
        "self loops on <=3 nodes (quick) / <=4 nodes (thorough) plus random graphs on <=6 nodes x range limits around "
        "every partial path length; termination decided by a logical step budget on find_lanelet_by_id (failpoint), "
        "not by wall clock. distinct = (section, structural fingerprint); non-trivial = polyline with >=3 vertices or "
        "graph with >=1 edge")
ANCHORS = ["Lanelet.interpolate_position", "Lanelet.merge_lanelets", "Lanelet.find_lanelet_successors_in_range",
           "Lanelet.find_lanelet_predecessors_in_range", "Lanelet._compute_polyline_cumsum_dist"]
REQUIRED = ["search.started-from-a-copy-of-the-start-lanelet", "lanelet.reduced-from-3d-after-its-length-was-asked", "interp.at-vertex", "interp.same-arc-length-after-moving-the-lanelet", "interp.zero", "interp.full-length", "interp.interior", "merge.pred-first",
            "merge.suc-first", "merge.nonuniform-spacing", "graph.cyclic", "graph.diamond-or-merge", "graph.branching",
            "range.equal-to-partial-length", "pred-search", "succ-search", "graph.curved-lanelets", "poly.int-dtype", "graph.neighbour-list-not-ascending", "merge.link-predecessor-list-only", "merge.link-successor-list-only", "merge.via-all_lanelets_by_merging"]
EXHAUSTIVE = {"quick": "all directed graphs without self loops on 1..3 nodes (as successor relations) x start node x "
                       "range limits {below, equal, above} every partial path length",
              "thorough": "all directed graphs without self loops on 1..4 nodes x start node x range limits"}
ASSUMPTIONS = ["polylines have distinct consecutive vertices", "left/right boundaries are offsets of the centre line so "
               "that the segment parameter is well defined", "tolerance 1e-9*(1+scale)"]
SHARDS = {"quick": 2, "thorough": 16}


class StepBudgetExceeded(Exception):
    pass


def arc_walk(poly, s):
    """own arc-length walk: point at arc length s, (segment index, parameter)"""
    acc = 0.0
    n = len(poly)
    for i in range(n - 1):
        d = math.hypot(poly[i + 1][0] - poly[i][0], poly[i + 1][1] - poly[i][1])
        if s <= acc + d or i == n - 2:
            r = (s - acc) / d
            return (poly[i][0] + r * (poly[i + 1][0] - poly[i][0]), poly[i][1] + r * (poly[i + 1][1] - poly[i][1])), i, r
        acc += d
    raise AssertionError


def gen_polyline(rng):
    n = rng.choice([2, 2, 3, 4, 5, 8])
    kind = rng.choice(["straight", "curved", "mixed-lengths", "zigzag", "far", "int-dtype"])
    if kind == "int-dtype":
        # integer coordinates handed over as integer-dtype arrays (valid polylines); segment lengths are irrational
        x, y, pts = rng.randint(-20, 20), rng.randint(-20, 20), []
        for i in range(n):
            pts.append((x, y))
            x += rng.randint(1, 4)
            y += rng.choice([-3, -2, -1, 0, 1, 2, 3])
        return pts, kind
    pts = [(rng.uniform(-50, 50), rng.uniform(-50, 50))]
    if kind == "far":
        pts = [(rng.uniform(1e5, 7e5), rng.uniform(5e6, 6e6))]
    heading = rng.uniform(-math.pi, math.pi)
    for i in range(n - 1):
        if kind == "straight":
            step = rng.choice([0.5, 1.0, 2.0, rng.uniform(0.1, 5)])
        elif kind == "curved":
            step = rng.uniform(0.5, 3)
            heading += rng.uniform(0.05, 0.4)
        elif kind == "mixed-lengths":
            step = rng.choice([1e-3, 1e-2, 0.5, 10.0, 1000.0])
            heading += rng.uniform(-0.2, 0.2)
        elif kind == "zigzag":
            step = rng.uniform(0.5, 2)
            heading += rng.choice([-1, 1]) * rng.uniform(0.2, 1.0)
        else:
            step = rng.uniform(1, 30)
            heading += rng.uniform(-0.1, 0.1)
        pts.append((pts[-1][0] + step * math.cos(heading), pts[-1][1] + step * math.sin(heading)))
    return pts, kind


def offset(poly, d):
    """simple per-vertex normal offset (keeps the vertex count, so the segment parameter is comparable)"""
    out = []
    n = len(poly)
    for i in range(n):
        a = poly[max(0, i - 1)]
        b = poly[min(n - 1, i + 1)]
        tx, ty = b[0] - a[0], b[1] - a[1]
        ln = math.hypot(tx, ty)
        out.append((poly[i][0] - ty / ln * d, poly[i][1] + tx / ln * d))
    return out


def mk_lanelet(lid, center, succ=None, pred=None):
    import numpy as np
    from commonroad.scenario.lanelet import Lanelet
    return Lanelet(np.array(offset(center, 1.5)), np.array(center), np.array(offset(center, -1.5)), lid,
                   predecessor=list(pred or []), successor=list(succ or []))


def run(ctx):
    import numpy as np
    from commonroad.scenario.lanelet import Lanelet, LaneletNetwork

    def tol(scale):
        return 1e-9 * (1 + scale)

    # ------------------------------------------------------------------------------ distance / interpolate_position
    n = ctx.pick(600, 200000)
    for i, rng in ctx.cases("arc", n):
        poly, kind = gen_polyline(rng)
        if kind == "int-dtype":
            cen = np.array(poly, dtype=int)
            la = Lanelet(cen + np.array([0, 2]), cen, cen - np.array([0, 2]), 1)
        else:
            la = mk_lanelet(1, poly)
            if i % 5 == 3:
                # the lanelet came with elevation (3-D vertices), was measured, and was then reduced to the plane: from
                # there on it is the plane lanelet of these vertices
                zs = np.array([[0.5 * k * (1 + (k % 3))] for k in range(len(poly))], dtype=float)
                la = Lanelet(np.hstack([la.left_vertices, zs]), np.hstack([la.center_vertices, zs]),
                             np.hstack([la.right_vertices, zs]), 1)
                _ = la.distance, la.inner_distance
                la.convert_to_2d()
                ctx.feature("lanelet.reduced-from-3d-after-its-length-was-asked")
        ctx.evaluation()
        ctx.fingerprint(["arc", kind, len(poly), round(poly[0][0], 3)])
        ctx.feature("poly." + kind)
        scale = max(abs(c) for p in poly for c in p)
        seg = [math.hypot(poly[k + 1][0] - poly[k][0], poly[k + 1][1] - poly[k][1]) for k in range(len(poly) - 1)]
        cum = [0.0]
        for d in seg:
            cum.append(cum[-1] + d)
        dist = la.distance
        if i < 2:
            ctx.sample({"centre_polyline": poly, "kind": kind, "distance": [float(x) for x in dist]})
        if len(dist) != len(poly) or dist[0] != 0 or any(dist[k + 1] < dist[k] for k in range(len(dist) - 1)):
            ctx.violation("C20/distance/not-monotone-from-zero", "%s -> %s" % (poly, dist), poly)
        if any(abs(dist[k] - cum[k]) > tol(scale + cum[-1]) for k in range(len(cum))):
            ctx.violation("C20/distance/not-cumulative-arc-length", "%s -> %s expected %s" % (poly, list(dist), cum), poly)
        L = float(dist[-1])
        queries = [("zero", 0.0), ("full-length", L)]
        queries += [("at-vertex", float(dist[k])) for k in range(1, len(poly) - 1)]
        queries += [("interior", (cum[k] + cum[k + 1]) / 2) for k in range(len(seg))]
        queries += [("interior", rng.uniform(0, L)) for _ in range(3)]
        queries += [("int-arg", 0)] if L >= 0 else []
        for qk, s in queries:
            ctx.evaluation()
            ctx.feature("interp." + qk)
            try:
                c, r, l, idx = la.interpolate_position(s)
            except Exception as e:  # noqa
                ctx.violation("C20/interpolate_position/raises-%s/%s" % (type(e).__name__, qk),
                              "s=%r on %s: %r" % (s, poly, e), {"poly": poly, "s": s})
                continue
            (ex, ey), ei, er = arc_walk(poly, float(s))
            t = tol(scale + L)
            if abs(c[0] - ex) > t or abs(c[1] - ey) > t:
                ctx.violation("C20/interpolate_position/centre-point-wrong/" + qk,
                              "s=%r: got %s expected (%r,%r) on %s" % (s, c, ex, ey, poly), {"poly": poly, "s": s})
                continue
            # right/left at the same segment parameter of the segment the implementation reports
            if not (0 <= idx < len(poly) - 1):
                ctx.violation("C20/interpolate_position/segment-index-out-of-range", "idx=%r" % idx, {"poly": poly, "s": s})
                continue
            d0, d1 = float(dist[idx]), float(dist[idx + 1])
            rr = (float(s) - d0) / (d1 - d0)
            if not (-1e-9 <= rr <= 1 + 1e-9):
                ctx.violation("C20/interpolate_position/segment-does-not-contain-s", "s=%r idx=%r" % (s, idx),
                              {"poly": poly, "s": s})
                continue
            R, Lf = la.right_vertices, la.left_vertices
            for nm, got, arr in (("right", r, R), ("left", l, Lf)):
                e = (1 - rr) * arr[idx] + rr * arr[idx + 1]
                if abs(got[0] - e[0]) > t or abs(got[1] - e[1]) > t:
                    ctx.violation("C20/interpolate_position/%s-point-wrong/%s" % (nm, qk),
                                  "s=%r got %s expected %s" % (s, got, e), {"poly": poly, "s": s})

        # "for every lanelet": also one that has answered before and was moved since (public translate_rotate) -- the answer
        # for the SAME arc length moves with the lanelet
        if i % 3 == 0:
            qk, s = queries[(i // 3) % len(queries)]
            try:
                c0 = [np.array(x_, dtype=float) for x_ in la.interpolate_position(s)[:3]]
                shift = np.array([7.0, -3.0])
                la.translate_rotate(shift, 0.0)
                c1 = [np.array(x_, dtype=float) for x_ in la.interpolate_position(s)[:3]]
                ctx.feature("interp.same-arc-length-after-moving-the-lanelet")
                ctx.evaluation()
                t = tol(scale + L + 10.0)
                for nm, a_, b_ in zip(("centre", "right", "left"), c0, c1):
                    if np.abs(a_[:2] + shift - b_[:2]).max() > t:
                        ctx.violation("C20/interpolate_position/%s-point-wrong/after-moving-the-lanelet" % nm,
                                      "s=%r: %s before, %s after a translation by %s" % (s, a_, b_, shift), {"poly": poly, "s": s})
                        break
            except Exception as e:  # noqa
                ctx.violation("C20/interpolate_position/raises-%s/after-moving-the-lanelet" % type(e).__name__, repr(e),
                              {"poly": poly})

    # ------------------------------------------------------------------------------------------------- merge_lanelets
    n = ctx.pick(300, 80000)
    for i, rng in ctx.cases("merge", n):
        p1, k1 = gen_polyline(rng)
        p2, k2 = gen_polyline(rng)
        # second polyline starts where the first ends (boundaries too: shift offsets consistently)
        l1 = mk_lanelet(10, p1, succ=[20])
        dx, dy = p1[-1][0] - p2[0][0], p1[-1][1] - p2[0][1]
        p2 = [(x + dx, y + dy) for x, y in p2]
        l2 = mk_lanelet(20, p2, pred=[10])
        # make the boundaries meet exactly at the joint
        for attr in ("_left_vertices", "_right_vertices", "_center_vertices"):
            a2 = getattr(l2, attr).copy()
            sh = getattr(l1, attr)[-1] - a2[0]
            setattr(l2, attr, a2 + sh)
        # the connection may be recorded on both lanelets or on one of them only (the method accepts any of these)
        link = ["both", "successor-list-only", "predecessor-list-only"][(i // 2) % 3]
        l2 = Lanelet(l2.left_vertices, l2.center_vertices, l2.right_vertices, 20,
                     predecessor=[10] if link != "successor-list-only" else [])
        if link == "predecessor-list-only":
            l1 = Lanelet(l1.left_vertices, l1.center_vertices, l1.right_vertices, 10, successor=[])
        order = "pred-first" if i % 2 == 0 else "suc-first"
        ctx.evaluation()
        ctx.feature("merge." + order)
        ctx.feature("merge.link-" + link)
        order = order + "/link-" + link
        seg1 = l1.distance[1] - l1.distance[0]
        seg2 = l2.distance[1] - l2.distance[0]
        if abs(seg1 - seg2) > 1e-6:
            ctx.feature("merge.nonuniform-spacing")
        ctx.fingerprint(["merge", order, len(p1), len(p2), k1, k2, round(p1[0][0], 3)])
        # populate caches first (query -> merge), as a user would
        _ = l1.distance, l2.distance
        exp = {a: np.concatenate((getattr(l1, a), getattr(l2, a)[1:])) for a in
               ("left_vertices", "right_vertices", "center_vertices")}
        try:
            m = Lanelet.merge_lanelets(l1, l2) if order.startswith("pred-first") else Lanelet.merge_lanelets(l2, l1)
        except Exception as e:  # noqa
            ctx.violation("C20/merge_lanelets/raises-%s/%s" % (type(e).__name__, order), repr(e), {"p1": p1, "p2": p2})
            continue
        if i < 1:
            ctx.sample({"merge": order, "p1": p1, "p2": p2})
        scale = max(abs(c) for p in p1 + p2 for c in p)
        bad = False
        for a, e in exp.items():
            g = getattr(m, a)
            if g.shape != e.shape or np.abs(g - e).max() > tol(scale):
                ctx.violation("C20/merge_lanelets/boundary-not-concatenation/%s/%s" % (a, order),
                              "shape %s vs %s" % (g.shape, e.shape), {"p1": p1, "p2": p2})
                bad = True
        if bad:
            continue
        Ls = float(l1.distance[-1] + l2.distance[-1])
        md = m.distance
        cen = [tuple(x) for x in exp["center_vertices"]]
        cum = [0.0]
        for k in range(len(cen) - 1):
            cum.append(cum[-1] + math.hypot(cen[k + 1][0] - cen[k][0], cen[k + 1][1] - cen[k][1]))
        if abs(float(md[-1]) - Ls) > tol(scale + Ls):
            ctx.violation("C20/merge_lanelets/length-not-sum/" + order, "%r vs %r" % (float(md[-1]), Ls),
                          {"p1": p1, "p2": p2})
        elif len(md) != len(cum) or any(abs(float(md[k]) - cum[k]) > tol(scale + Ls) for k in range(len(cum))):
            ctx.violation("C20/merge_lanelets/merged-distance-not-arc-length/" + order,
                          "%s vs %s" % ([float(x) for x in md], cum), {"p1": p1, "p2": p2})
        else:
            for s in (cum[len(p1) - 1], cum[len(p1) - 1] / 2, (cum[len(p1) - 1] + Ls) / 2, cum[1], cum[-2]):
                (ex, ey), _, _ = arc_walk(cen, s)
                c = m.interpolate_position(s)[0]
                if abs(c[0] - ex) > tol(scale + Ls) or abs(c[1] - ey) > tol(scale + Ls):
                    ctx.violation("C20/merge_lanelets/interpolate-on-merged-wrong/" + order,
                                  "s=%r got %s expected %s" % (s, c, (ex, ey)), {"p1": p1, "p2": p2})
                    break

    # ------------------------------------------------------------------------- successor / predecessor enumeration
    def graphs_upto(nmax):
        for nn in range(1, nmax + 1):
            edges = [(a, b) for a in range(nn) for b in range(nn) if a != b]
            for mask in range(1 << len(edges)):
                yield nn, [e for k, e in enumerate(edges) if mask >> k & 1]

    small = list(graphs_upto(ctx.pick(3, 4)))
    nrand = ctx.pick(300, 120000)

    def run_graph(nn, edges, lengths, tag, rng, curved=False):
        succ = {a: [] for a in range(nn)}
        pred = {a: [] for a in range(nn)}
        for a, b in edges:
            succ[a].append(b + 1)
            pred[b].append(a + 1)
        # the ORDER in which a lanelet lists its successors / predecessors is the user's (not ascending, not set order)
        for lst in list(succ.values()) + list(pred.values()):
            if len(lst) > 1:
                rng.shuffle(lst)
                if lst != sorted(lst):
                    ctx.feature("graph.neighbour-list-not-ascending")
        lanelets = []
        for a in range(nn):
            ln = lengths[a]
            poly = [(0.0, 10.0 * a), (ln / 2, 10.0 * a), (ln, 10.0 * a)]
            if curved:
                # arc of ~1.6 rad: the boundaries are clearly shorter / longer than the centre line, whose length
                # (the only one the statement speaks of) is measured here on the polyline itself
                r = max(ln, 3.5) / 1.6
                poly = [(r * math.sin(1.6 * k / 6), 40.0 * a + r * (1 - math.cos(1.6 * k / 6))) for k in range(7)]
                lengths[a] = sum(math.hypot(poly[k + 1][0] - poly[k][0], poly[k + 1][1] - poly[k][1]) for k in range(6))
                ctx.feature("graph.curved-lanelets")
            lanelets.append(mk_lanelet(a + 1, poly, succ=succ[a], pred=pred[a]))
        net = LaneletNetwork.create_from_lanelet_list(lanelets, cleanup_ids=False)
        # logical step budget: the search may call find_lanelet_by_id at most BUDGET times
        simple_paths_bound = math.factorial(nn) * 3 + 10
        budget = 1000 * simple_paths_bound
        calls = [0]
        orig = net.find_lanelet_by_id

        def counted(lid):
            calls[0] += 1
            if calls[0] > budget:
                raise StepBudgetExceeded("find_lanelet_by_id called %d times" % calls[0])
            return orig(lid)

        net.find_lanelet_by_id = counted
        has_cycle = _has_cycle(nn, edges)
        if has_cycle:
            ctx.feature("graph.cyclic")
        if any(len(v) > 1 for v in succ.values()):
            ctx.feature("graph.branching")
        if any(len(v) > 1 for v in pred.values()):
            ctx.feature("graph.diamond-or-merge")
        for start in range(1, nn + 1):
            la = orig(start)
            if (start + nn) % 2 == 1:
                # the search is asked on a lanelet object that is a COPY of the network's one (networks store copies of the
                # lanelets they are built from; users keep working with their own objects): it is the same lanelet by id
                import copy as _cp
                la = _cp.deepcopy(la)
                ctx.feature("search.started-from-a-copy-of-the-start-lanelet")
            for direction, rel in (("succ", succ), ("pred", pred)):
                rel1 = {k + 1: v for k, v in rel.items()}
                firsts = rel1[start]
                # candidate ranges: around every partial simple-path length
                partial = set()
                _partials(rel1, start, lengths, partial, limit=40)
                ranges = {0.5, 1e9}
                for p in sorted(partial)[:6]:
                    ranges.update((p - 0.25, p + 0.25))
                    if not curved:  # exact equality only where the sums are exact (dyadic lengths)
                        ranges.add(p)
                        ctx.feature("range.equal-to-partial-length")
                for rg in sorted(r for r in ranges if r > 0):
                    ctx.evaluation()
                    ctx.feature("succ-search" if direction == "succ" else "pred-search")
                    calls[0] = 0
                    fn = la.find_lanelet_successors_in_range if direction == "succ" else \
                        la.find_lanelet_predecessors_in_range
                    wit = {"nodes": nn, "edges": [(a + 1, b + 1) for a, b in edges], "lengths": lengths, "start": start,
                           "range": rg, "dir": direction}
                    try:
                        paths = fn(net, max_length=rg)
                    except StepBudgetExceeded as e:
                        ctx.violation("C20/%s-search/does-not-terminate(step-budget)/%s" % (direction, tag), str(e), wit)
                        continue
                    except Exception as e:  # noqa
                        ctx.violation("C20/%s-search/raises-%s/%s" % (direction, type(e).__name__, tag), repr(e), wit)
                        continue
                    key = "C20/%s-search/" % direction
                    covered = set()
                    for p in paths:
                        if not p:
                            ctx.violation(key + "empty-chain", repr(paths), wit)
                            continue
                        covered.add(p[0])
                        if p[0] not in firsts:
                            ctx.violation(key + "chain-does-not-start-at-direct-neighbour", "%s in %s" % (p, paths), wit)
                        if any(p[k + 1] not in rel1[p[k]] for k in range(len(p) - 1)):
                            ctx.violation(key + "chain-follows-nonexistent-link", "%s" % (p,), wit)
                        if len(set(p)) != len(p):
                            ctx.violation(key + "chain-has-loop", "%s" % (p,), wit)
                        if start in p:
                            ctx.violation(key + "chain-revisits-start", "%s" % (p,), wit)
                        acc = 0.0
                        for k in range(len(p) - 1):  # every proper prefix must be below the range
                            acc += lengths[p[k] - 1]
                            if k >= 0 and acc >= rg and k + 1 < len(p) and k >= 1:
                                pass
                        # extension rule: the chain was extended past prefix p[:k+1] only while its length < range;
                        # the first element is always present (direct neighbour), so prefixes of length >= 1 count
                        acc = 0.0
                        for k in range(len(p) - 1):
                            acc += lengths[p[k] - 1]
                            if acc >= rg:
                                ctx.violation(key + "extended-although-range-reached",
                                              "chain %s: prefix %s has length %r >= range %r" % (p, p[:k + 1], acc, rg),
                                              wit)
                                break
                    if set(firsts) - covered:
                        ctx.violation(key + "direct-neighbour-not-covered", "%s missing in %s" % (
                            set(firsts) - covered, paths), wit)
                    if not firsts and paths:
                        ctx.violation(key + "chains-without-neighbours", repr(paths), wit)

    for i, rng in ctx.cases("graphs-exhaustive", len(small)):
        nn, edges = small[i]
        lengths = [[1.0, 2.0, 4.0, 8.0][k] for k in range(nn)]
        ctx.fingerprint(["g", nn, edges])
        if i in (5, 60):
            ctx.sample({"nodes": nn, "successor_edges": edges, "lengths": lengths})
        run_graph(nn, edges, lengths, "small", rng)

    for i, rng in ctx.cases("graphs-random", nrand):
        nn = rng.randint(3, 6)
        dens = rng.choice([0.15, 0.3, 0.5])
        edges = [(a, b) for a in range(nn) for b in range(nn) if a != b and rng.random() < dens]
        lengths = [rng.choice([0.5, 1.0, 2.0, 3.0, 10.0]) for _ in range(nn)]
        ctx.fingerprint(["g", nn, edges, lengths])
        run_graph(nn, edges, lengths, "random", rng, curved=(i % 2 == 1))

    # ------------------------------------------------------ all_lanelets_by_merging_* (merge along enumerated routes)
    for i, rng in ctx.cases("merge-routes", ctx.pick(60, 15000)):
        k = rng.randint(2, 4)
        polys = []
        x = 0.0
        for a in range(k):
            npts = rng.randint(2, 4)
            step = rng.choice([0.5, 1.0, 3.0])
            polys.append([(x + j * step, 0.0) for j in range(npts)])
            x = polys[-1][-1][0]
        lan = [mk_lanelet(a + 1, polys[a], succ=[a + 2] if a + 1 < k else [], pred=[a] if a > 0 else []) for a in
               range(k)]
        # straight chain: offsets are exact, boundaries meet
        net = LaneletNetwork.create_from_lanelet_list(lan, cleanup_ids=False)
        ctx.evaluation()
        ctx.feature("merge.via-all_lanelets_by_merging")
        ctx.fingerprint(["mr", [len(p) for p in polys], [p[1][0] - p[0][0] for p in polys]])
        total = polys[-1][-1][0]
        for direction in ("succ", "pred"):
            start = net.find_lanelet_by_id(1) if direction == "succ" else net.find_lanelet_by_id(k)
            _ = [l.distance for l in net.lanelets]
            try:
                fn = Lanelet.all_lanelets_by_merging_successors_from_lanelet if direction == "succ" else \
                    Lanelet.all_lanelets_by_merging_predecessors_from_lanelet
                merged, ids = fn(start, net, max_length=1e6)
            except Exception as e:  # noqa
                ctx.violation("C20/all_lanelets_by_merging_%s/raises-%s" % (direction, type(e).__name__), repr(e), polys)
                continue
            for m in merged:
                xs = sorted(set(round(p[0], 9) for poly in polys for p in poly))
                gx = [round(float(v[0]), 9) for v in m.center_vertices]
                md = [float(v) for v in m.distance]
                if gx != xs:
                    ctx.violation("C20/all_lanelets_by_merging_%s/centre-not-concatenation" % direction,
                                  "%s vs %s" % (gx, xs), polys)
                elif any(abs(md[j] - (xs[j] - xs[0])) > 1e-9 for j in range(len(xs))) or abs(md[-1] - total) > 1e-9:
                    ctx.violation("C20/all_lanelets_by_merging_%s/distance-of-merged-not-arc-length" % direction,
                                  "%s vs %s" % (md, [v - xs[0] for v in xs]), polys)


def _has_cycle(nn, edges):
    adj = {a: [b for x, b in edges if x == a] for a in range(nn)}
    color = {}

    def dfs(u):
        color[u] = 1
        for v in adj[u]:
            if color.get(v) == 1 or (v not in color and dfs(v)):
                return True
        color[u] = 2
        return False

    return any(u not in color and dfs(u) for u in range(nn))


def _partials(rel, start, lengths, out, limit):
    """accumulated lengths of simple paths from the direct neighbours (bounded)"""
    stack = [([f], lengths[f - 1]) for f in rel[start]]
    while stack and len(out) < limit:
        p, ln = stack.pop()
        out.add(ln)
        for s in rel[p[-1]]:
            if s not in p and s != start:
                stack.append((p + [s], ln + lengths[s - 1]))
