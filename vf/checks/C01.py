"""C01 — XML write -> read reproduces scenario and planning problems (monitor: vf.monitors.roundtrip on write_to_file)."""
CLAIM = True
RULE = ("generated schema-expressible scenarios (coverage table over every enumeration member, shape kind, state class, "
        "exact/interval/region value kind, all 16 subset patterns of optional initial-state attributes, signal flags "
        "true/false/absent, virtual/active/direction/offset, adjacency directions, goal position kinds) with hostile "
        "magnitudes (12-digit fractions, 1e-7..1e-4, 1e5..7e6, -0.0, ints), written at precisions 1..12 and re-read; "
        "fixture files re-written too. distinct = structural fingerprint of (ids, roles, case); non-trivial = has >=1 "
        "obstacle or sign/light")
ANCHORS = ["XMLFileWriter.write_to_file", "float_to_str", "StateFactory.create_from_xml_node", "StateFactory._fill_state",
           "LaneletFactory.create_from_xml_node", "TrafficSignFactory.create_from_xml_node",
           "TrafficLightFactory.create_from_xml_node", "IntersectionFactory.create_from_xml_node",
           "DynamicObstacleFactory.create_from_xml_node", "GoalRegionFactory.create_from_xml_node"]
REQUIRED = ["retry-after-failed-write", "coarse-writer-writes-first", "environment.time-24:00", "geo-transformation.non-neutral-parameters=s", "geo-transformation.non-neutral-parameters=r",
            "geo-transformation.non-neutral-parameters=", "contract.xml.write_to_file", "role.static", "role.dynamic", "role.phantom", "role.environment",
            "prediction.trajectory", "prediction.set", "shape.rectangle", "shape.circle", "shape.polygon", "shape.group",
            "value.exact", "value.interval", "initial.position.region", "sign.virtual.True", "sign.virtual.False",
            "light.active.False", "light.offset.positive", "goal.position.lanelets", "goal.lanelets-after-positionless-goal-state", "goal.position.shape", "lanelet.3d",
            "stopline.near-lanelet-end", "lanelet.utm-scale-coordinates",
            "signals.both", "occupancy.interval", "intersection", "stopline.refs", "fixture-file"] + \
           ["precision.%d" % d for d in range(1, 13)] + ["initial.optional-pattern.%d" % p for p in range(16)]
ASSUMPTIONS = ["derived data is not compared (center vertices, light colours, lanelet assignments, first occurrences)",
               "None and empty are the same for optional id sets and series",
               "the state class is not compared, only the populated attribute set"]
SHARDS = {"quick": 4, "thorough": 16}


def run(ctx):
    from vf.checks._rt import drive
    n = ctx.pick(240, 12000)
    if ctx.quick:
        drive(ctx, "xml", n, lambda i: [1 + i % 12], fixture_precisions=(4, 9))
    else:
        drive(ctx, "xml", n, lambda i: [1 + i % 12, 1 + (i * 5 + 3) % 12, 12], fixture_precisions=tuple(range(1, 13)))

    # ambient workload (thorough tier): the repository's own tests with the contracts installed
    if not ctx.quick and ctx.shard == 0 and ctx.only is None:
        from vf.ambient import run_ambient
        run_ambient(ctx, ['roundtrip'])
