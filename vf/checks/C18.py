"""C18 — read-only operations do not change scenarios or planning problems.

Before and after EACH operation of a random sequence of read-only operations: (1) deep structural snapshot through
public accessors (attribute lists of every state, key sets and container types of dicts, list orders, derived
registries); (2) bytes of an XML and of a protobuf export (date normalised) of a deep copy taken before vs after."""
import copy
import os
import pickle
import warnings

CLAIM = True
RULE = ("generated scenarios / planning problems (all obstacle roles, point-mass and custom states without an "
        "orientation attribute, default-constructed obstacles, goal-lanelet tables of type dict and defaultdict, traffic "
        "lights referenced by lanelets with successors) and fixture files x random sequences (length 6..14) of "
        "read-only operations: occupancy/state/scenario-level queries, lanelet lookups, obstacle-lanelet mapping, "
        "traffic-light states, goal checks, ==, hash, copy, deepcopy, pickle, str/repr, draw + render, XML export, "
        "protobuf export. distinct = (scenario fingerprint, operation sequence); non-trivial = sequence contains an "
        "export or draw")
ANCHORS = ["TrajectoryPrediction._create_occupancy_set", "GoalRegion.is_reached", "LaneletNetwork.__deepcopy__",
           "LaneletNetwork.__getstate__", "ProtobufFileWriter.write_to_file", "XMLFileWriter.write_to_file",
           "MPRenderer.draw_scenario", "MPRenderer.draw_lanelet_network", "Scenario.occupancies_at_time_step",
           "LaneletNetwork.find_lanelet_by_position", "LaneletNetwork.map_obstacles_to_lanelets"]
REQUIRED = ["derived-network-edited-afterwards", "registry-asked-at-steps-without-entries", "draw.with-sign-symbols", "op.occupancy_at_time", "op.state_at_time", "op.occupancies_at_time_step", "op.find_lanelet_by_position",
            "op.find_lanelet_by_shape", "op.map_obstacles_to_lanelets", "op.light_state", "op.is_reached",
            "op.goal_reached", "op.eq", "op.hash", "op.copy", "op.deepcopy", "op.pickle", "op.str", "op.draw",
            "op.export_xml", "op.export_pb", "state-without-orientation", "goal-lanelets.dict",
            "goal-lanelets.defaultdict", "default-constructed-obstacle", "fixture", "light-with-successors",
            "goal-check.scenario-state-with-vx-vy-orientation", "goal_reached.scenario-trajectory",
            "uncertain-regions-under-off-centre-shape", "registered-obstacles-on-a-lanelet-chain", "op.merge_queries",
            "query-answers-rechecked", "op.cutout_copy"]
ASSUMPTIONS = ["private caches are not compared (C11 covers them where observable)",
               "an exception raised by a read-only operation is not judged here (totality is C19 / C04 / C08 business)"]
SHARDS = {"quick": 4, "thorough": 16}

OPS = ["occupancy_at_time", "state_at_time", "occupancies_at_time_step", "obstacle_states_at_time_step",
       "obstacles_by_role_and_type", "obstacles_by_position_intervals", "find_lanelet_by_position", "find_lanelet_by_shape",
       "contains_points", "map_obstacles_to_lanelets", "lanelet_geometry", "successors_in_range", "light_state",
       "is_reached", "goal_reached", "eq", "hash", "copy", "deepcopy", "pickle", "str", "draw", "export_xml", "export_pb",
       "occupancy_set", "merge_queries", "cutout_copy"]


class ArgChanged(Exception):
    """an inspecting operation altered the object the caller passed in"""


def run(ctx):
    warnings.simplefilter("ignore")
    import numpy as np
    import commonroad.scenario.state as st
    from commonroad.common.util import Interval
    from commonroad.geometry.shape import Circle, Rectangle
    from commonroad.prediction.prediction import TrajectoryPrediction
    from commonroad.scenario.obstacle import DynamicObstacle, ObstacleRole, ObstacleType, StaticObstacle
    from commonroad.scenario.trajectory import Trajectory
    from vf import c15_ref, io
    from vf.checks._rt import fixtures
    from vf.gen.scenarios import ScenarioGen
    from vf.oracle import structure as S
    draw_count = [0]

    def snapshot(sc, pps):
        return {"scenario": S.snap_scenario(sc, derived=True), "pps": S.snap_pps(pps, derived=True)}

    def answers(sc):
        """what the scenario ANSWERS (observable through queries only): lanelet look-ups at fixed probe points"""
        net = sc.lanelet_network
        las = net.lanelets[:12]
        if not las:
            return {}
        pts = [np.array(la.center_vertices[len(la.center_vertices) // 2][:2], dtype=float) for la in las]
        pts.append(np.array([1e5, -1e5]))
        from commonroad.geometry.shape import Rectangle as _R
        out = {"by_position": [sorted(x) for x in net.find_lanelet_by_position(pts)],
               "by_shape": [sorted(net.find_lanelet_by_shape(_R(0.5, 0.25, p_, 0.3))) for p_ in pts[:6]]}
        return out

    def exports(sc, pps):
        out = {}
        for fmt in ("xml", "pb"):
            try:
                p = io.write(copy.deepcopy(sc), copy.deepcopy(pps), fmt, precision=9)
                with open(p, "rb") as f:
                    out[fmt] = c15_ref.normalise(f.read(), fmt)
                os.remove(p)
            except Exception as e:  # noqa
                out[fmt] = "unwritable:%s" % type(e).__name__
        return out

    def do(op, sc, pps, rng):
        net = sc.lanelet_network
        obs = sc.obstacles
        t = rng.choice([0, 0, 1, 2, 5])
        if op == "occupancy_at_time":
            for o in obs:
                o.occupancy_at_time(t)
        elif op == "occupancy_set":
            for o in sc.dynamic_obstacles:
                if o.prediction is not None:
                    _ = o.prediction.occupancy_set
        elif op == "state_at_time":
            for o in sc.dynamic_obstacles + sc.static_obstacles:
                o.state_at_time(t)
        elif op == "occupancies_at_time_step":
            sc.occupancies_at_time_step(t, rng.choice([None] + list(ObstacleRole)))
        elif op == "obstacle_states_at_time_step":
            sc.obstacle_states_at_time_step(t)
        elif op == "obstacles_by_role_and_type":
            sc.obstacles_by_role_and_type(rng.choice([None] + list(ObstacleRole)), rng.choice([None, ObstacleType.CAR]))
        elif op == "obstacles_by_position_intervals":
            sc.obstacles_by_position_intervals([Interval(-1e3, 1e3), Interval(-1e3, 1e3)], tuple(ObstacleRole), t)
        elif op == "find_lanelet_by_position":
            la = rng.choice(net.lanelets)
            net.find_lanelet_by_position([la.center_vertices[0], np.array([1e5, 1e5])])
        elif op == "find_lanelet_by_shape":
            la = rng.choice(net.lanelets)
            net.find_lanelet_by_shape(Rectangle(3.0, 2.0, la.center_vertices[-1], 0.3))
            net.find_lanelet_by_shape(Circle(2.0, la.center_vertices[0]))
        elif op == "contains_points":
            la = rng.choice(net.lanelets)
            la.contains_points(np.array([la.center_vertices[0], la.left_vertices[-1]]))
        elif op == "map_obstacles_to_lanelets":
            oo = [o for o in sc.static_obstacles + sc.dynamic_obstacles
                  if isinstance(o.initial_state.position, np.ndarray) and not o.initial_state.is_uncertain_orientation]
            net.map_obstacles_to_lanelets(oo)
            net.filter_obstacles_in_network(oo)
        elif op == "lanelet_geometry":
            for la in net.lanelets:
                _ = la.distance, la.inner_distance, la.polygon
                la.interpolate_position(float(la.distance[-1]) / 2)
                # who is on this lanelet at a time step -- also at steps for which nothing is registered
                for t_ in (0, 1, 2, 7, 50):
                    la.dynamic_obstacle_by_time_step(t_)
            ctx.feature("registry-asked-at-steps-without-entries")
        elif op == "successors_in_range":
            la = rng.choice(net.lanelets)
            la.find_lanelet_successors_in_range(net, 30.0)
            la.find_lanelet_predecessors_in_range(net, 30.0)
        elif op == "merge_queries":
            # queries that return NEW merged lanelets built from a chain of successors / predecessors
            from commonroad.scenario.lanelet import Lanelet as _La
            first, last = net.find_lanelet_by_id(8001), net.find_lanelet_by_id(8003)
            # (scenarios read from the repository's files may use the same ids for lanelets of a large map: only the
            # harness' own chain / ring are queried with these ranges)
            if first is not None and last is not None and first.successor == [8002] and last.predecessor == [8002]:
                _La.all_lanelets_by_merging_successors_from_lanelet(first, net)
                _La.all_lanelets_by_merging_predecessors_from_lanelet(last, net)
                _La.merge_lanelets(first, net.find_lanelet_by_id(8002))
            ring = net.find_lanelet_by_id(8101)
            if ring is not None and ring.predecessor == [8104] and ring.successor == [8102]:
                # a closed loop (ring road): the merge goes once around and comes back to where it started
                _La.all_lanelets_by_merging_successors_from_lanelet(ring, net, max_length=1e4)
                _La.all_lanelets_by_merging_predecessors_from_lanelet(ring, net, max_length=1e4)
                _La.merge_lanelets(net.find_lanelet_by_id(8104), ring)
        elif op == "cutout_copy":
            # a NEW network cut out of this one (by a region / by lanelet types / a plain copy): the source is only read
            from commonroad.common.common_lanelet import LaneletType as _LT
            from commonroad.geometry.shape import Rectangle as _Rc
            from commonroad.scenario.lanelet import LaneletNetwork as _LN
            if net.lanelets:
                for la_ in net.lanelets[:5]:   # a cut-out around each of the first lanelets (each drops other lanelets)
                    c_ = la_.center_vertices[len(la_.center_vertices) // 2]
                    _LN.create_from_lanelet_network(net, _Rc(rng.choice([2.0, 8.0]), 2.0, np.array(
                        [float(c_[0]), float(c_[1])]), 0.0))
                _LN.create_from_lanelet_network(net, None, {rng.choice(list(_LT))})
                _LN.create_from_lanelet_network(net)
                _LN.create_from_lanelet_list(net.lanelets[:2])
                # ... and the derived networks are WORKED ON afterwards (moved, lanelets of them given a sign reference):
                # they are networks of their own, whichever way they were derived
                for d_ in (_LN.create_from_lanelet_list(net.lanelets[:2], cleanup_ids=False),
                           _LN.create_from_lanelet_list(net.lanelets[:2]), _LN.create_from_lanelet_network(net)):
                    for la_ in d_.lanelets[:2]:
                        la_.add_traffic_sign_to_lanelet(424242)
                    try:
                        d_.translate_rotate(np.array([50.0, 20.0]), 0.3)
                    except ValueError:
                        pass  # (lanelets with elevation cannot be moved)
                ctx.feature("derived-network-edited-afterwards")
        elif op == "light_state":
            for tl in net.traffic_lights:
                tl.get_state_at_time_step(t)
                tl.traffic_light_cycle.get_state_at_time_step(t + 3)
        elif op == "is_reached":
            for pp in pps.planning_problem_dict.values():
                s = st.KSState(time_step=rng.randint(0, 30), position=np.array([rng.uniform(-50, 50), rng.uniform(-50, 50)]),
                               orientation=rng.uniform(-3, 3), velocity=rng.uniform(0, 30), steering_angle=0.0)
                pp.goal.is_reached(s)
                pp.goal.is_reached(st.PMState(time_step=3, position=np.array([0.0, 0.0]), velocity=-2.0, velocity_y=1.0))
                # states that BELONG to the scenario / planning problem are what users pass in practice
                pp.goal.is_reached(pp.initial_state)
                for o in sc.dynamic_obstacles:
                    for tt in (o.initial_state.time_step, o.initial_state.time_step + 1, o.initial_state.time_step + 2):
                        so = o.state_at_time(tt)
                        if so is not None and isinstance(getattr(so, "position", None), np.ndarray) \
                                and not so.is_uncertain_orientation:
                            pp.goal.is_reached(so)
                            if getattr(so, "velocity_y", None) and getattr(so, "orientation", None) is not None:
                                ctx.feature("goal-check.scenario-state-with-vx-vy-orientation")
                # a caller-owned state with both velocity components and an orientation must come back unchanged
                ms = st.MBState(time_step=2, position=np.array([1.0, 2.0]), orientation=0.3, velocity=3.0, velocity_y=-4.0,
                                steering_angle=0.0, yaw_rate=0.0, roll_angle=0.0, roll_rate=0.0, pitch_angle=0.0,
                                pitch_rate=0.0, position_z=0.0, velocity_z=0.0, roll_angle_front=0.0,
                                roll_rate_front=0.0, velocity_y_front=0.0, position_z_front=0.0, velocity_z_front=0.0,
                                roll_angle_rear=0.0, roll_rate_rear=0.0, velocity_y_rear=0.0, position_z_rear=0.0,
                                velocity_z_rear=0.0, left_front_wheel_angular_speed=0.0,
                                right_front_wheel_angular_speed=0.0, left_rear_wheel_angular_speed=0.0,
                                right_rear_wheel_angular_speed=0.0, delta_y_f=0.0, delta_y_r=0.0)
                cs = st.CustomState(time_step=2, position=np.array([1.0, 2.0]), orientation=0.3, velocity=3.0,
                                    velocity_y=-4.0)
                for own in (ms, cs):
                    b4 = {a: copy.deepcopy(getattr(own, a)) for a in own.attributes}
                    pp.goal.is_reached(own)
                    af = {a: getattr(own, a) for a in own.attributes}
                    if set(b4) != set(af) or any(not np.array_equal(b4[a], af[a]) for a in b4):
                        ch = sorted(a for a in set(b4) | set(af) if a not in b4 or a not in af or
                                    not np.array_equal(b4[a], af[a]))
                        raise ArgChanged("is_reached", type(own).__name__, ch)
        elif op == "goal_reached":
            for pp in pps.planning_problem_dict.values():
                tr = Trajectory(1, [st.KSState(time_step=1 + k, position=np.array([float(k), 0.0]), orientation=0.1,
                                               velocity=5.0, steering_angle=0.0) for k in range(4)])
                pp.goal_reached(tr)
                for o in sc.dynamic_obstacles:
                    if isinstance(o.prediction, TrajectoryPrediction) and all(
                            isinstance(getattr(x, "position", None), np.ndarray) and not x.is_uncertain_orientation
                            for x in o.prediction.trajectory.state_list):
                        pp.goal_reached(o.prediction.trajectory)
                        ctx.feature("goal_reached.scenario-trajectory")
        elif op == "eq":
            _ = sc == sc, pps == pps
            for o in obs:
                _ = o == o
            sc2 = copy.deepcopy(sc)
            _ = sc == sc2, sc2 == sc
        elif op == "hash":
            for x in [sc, pps] + obs + net.lanelets + list(pps.planning_problem_dict.values()):
                hash(x)
        elif op == "copy":
            copy.copy(sc)
            copy.copy(net)
        elif op == "deepcopy":
            copy.deepcopy(sc)
            copy.deepcopy(net)
            copy.deepcopy(pps)
        elif op == "pickle":
            pickle.loads(pickle.dumps(sc))
            pickle.loads(pickle.dumps(pps))
        elif op == "str":
            str(sc), repr(net), str(net)
            for x in obs + net.lanelets + net.traffic_signs + net.traffic_lights + net.intersections:
                str(x), repr(x)
        elif op == "draw":
            from commonroad.visualization.mp_renderer import MPRenderer
            import matplotlib.pyplot as plt
            rnd = MPRenderer()
            try:
                rnd.draw_params.time_begin = rng.choice([0, 1, 2])
                rnd.draw_params.time_end = rnd.draw_params.time_begin + rng.choice([0, 3, 10])
                rnd.draw_params.dynamic_obstacle.draw_icon = rng.random() < 0.3
                rnd.draw_params.dynamic_obstacle.trajectory.draw_trajectory = rng.random() < 0.7
                draw_count[0] += 1
                if draw_count[0] % 2 == 1:
                    # the sign symbols (with their additional values: speed limits in the displayed unit) are off by default
                    rnd.draw_params.traffic_sign.draw_traffic_signs = True
                    rnd.draw_params.lanelet_network.traffic_sign.draw_traffic_signs = True
                    rnd.draw_params.traffic_sign.speed_limit_unit = ["auto", "kmh", "mph", "ms"][(draw_count[0] // 2) % 4]
                    rnd.draw_params.lanelet_network.traffic_sign.speed_limit_unit = rnd.draw_params.traffic_sign.speed_limit_unit
                    ctx.feature("draw.with-sign-symbols")
                sc.draw(rnd)
                pps.draw(rnd)
                rnd.render()
            finally:
                plt.close("all")
        elif op == "export_xml":
            p = io.write(sc, pps, "xml", precision=rng.choice([3, 6, 12]))
            os.remove(p)
        elif op == "export_pb":
            p = io.write(sc, pps, "pb")
            os.remove(p)

    def add_specials(sc, rng):
        """objects whose shape triggers conditional side effects"""
        ids = [o.obstacle_id for o in sc.obstacles] + [1]
        nid = max(ids) + 1000
        shape = Rectangle(4.0, 2.0)
        # custom states WITHOUT an orientation attribute (velocity + velocity_y only)
        states = [st.CustomState(time_step=1 + k, position=np.array([float(k), 2.0 * k]), velocity=3.0 + k, velocity_y=-1.5)
                  for k in range(3)]
        sc.add_objects(DynamicObstacle(nid, ObstacleType.CAR, shape, st.InitialState(
            time_step=0, position=np.array([0.0, 0.0]), orientation=0.0), TrajectoryPrediction(Trajectory(1, states), shape)))
        ctx.feature("state-without-orientation")
        states = [st.PMState(time_step=1 + k, position=np.array([float(k), 5.0]), velocity=-3.0, velocity_y=1.5)
                  for k in range(2)]
        sc.add_objects(DynamicObstacle(nid + 1, ObstacleType.CAR, shape, st.InitialState(
            time_step=0, position=np.array([0.0, 5.0]), orientation=0.0), TrajectoryPrediction(Trajectory(1, states), shape)))
        sc.add_objects(StaticObstacle(nid + 2, ObstacleType.PARKED_VEHICLE, Circle(1.0), st.InitialState(
            time_step=0, position=np.array([3.0, 3.0]), orientation=0.0)))
        sc.add_objects(DynamicObstacle(nid + 3, ObstacleType.CAR, shape, st.InitialState(
            time_step=0, position=np.array([9.0, 9.0]), orientation=1.0)))
        ctx.feature("default-constructed-obstacle")
        # a chain of three consecutive lanelets with obstacles REGISTERED on the second and third one (the registries are
        # part of what must not change)
        from commonroad.scenario.lanelet import Lanelet as _La
        base_y = 700.0
        for k_, lid_ in enumerate((8001, 8002, 8003)):
            r_ = np.array([[10.0 * k_, base_y], [10.0 * k_ + 5.0, base_y], [10.0 * k_ + 10.0, base_y]])
            sc.add_objects(_La(r_ + np.array([0.0, 3.0]), r_ + np.array([0.0, 1.5]), r_, lid_,
                               predecessor=[lid_ - 1] if k_ else [], successor=[lid_ + 1] if k_ < 2 else []))
        sc.add_objects(StaticObstacle(nid + 6, ObstacleType.PARKED_VEHICLE, Rectangle(2.0, 1.0), st.InitialState(
            time_step=0, position=np.array([15.0, base_y + 1.5]), orientation=0.0)))
        sc.add_objects(DynamicObstacle(nid + 7, ObstacleType.CAR, Rectangle(2.0, 1.0), st.InitialState(
            time_step=0, position=np.array([25.0, base_y + 1.5]), orientation=0.0), TrajectoryPrediction(Trajectory(1, [
                st.KSState(time_step=1, position=np.array([26.0, base_y + 1.5]), orientation=0.0, velocity=1.0,
                           steering_angle=0.0)]), Rectangle(2.0, 1.0))))
        # a ring road of four quarter circles: 8101 -> 8102 -> 8103 -> 8104 -> 8101
        import math as _m
        for q_ in range(4):
            ph = [q_ * _m.pi / 2 + k_ * _m.pi / 10 for k_ in range(6)]
            arc_ = lambda rad: np.array([[900.0 + rad * _m.cos(a_), 900.0 + rad * _m.sin(a_)] for a_ in ph])  # noqa
            sc.add_objects(_La(arc_(18.5), arc_(20.0), arc_(21.5), 8101 + q_, predecessor=[8101 + (q_ - 1) % 4],
                               successor=[8101 + (q_ + 1) % 4]))
        sc.assign_obstacles_to_lanelets(obstacle_ids={nid + 6, nid + 7})
        ctx.feature("registered-obstacles-on-a-lanelet-chain")
        # uncertain positions of every region kind under an OFF-CENTRE obstacle shape (the region objects stored in the
        # states are what an occupancy computation must not write into)
        from commonroad.common.util import AngleInterval
        from commonroad.geometry.shape import Polygon
        off = Polygon(np.array([[0.0, 0.0], [5.0, 0.0], [5.0, 1.0], [1.0, 1.0], [1.0, 3.0], [0.0, 3.0]]))
        regions = [Circle(0.75, np.array([10.0, 0.5])), Rectangle(1.0, 0.5, np.array([12.0, 1.0]), 0.2),
                   Polygon(np.array([[14.0, 0.0], [15.0, 0.0], [15.0, 1.0]]))]
        states = [st.KSState(time_step=1 + k, position=regions[k], orientation=(0.1 * k if k != 1 else AngleInterval(
            -0.2, 0.3)), velocity=3.0, steering_angle=0.0) for k in range(3)]
        sc.add_objects(DynamicObstacle(nid + 5, ObstacleType.TRUCK, off, st.InitialState(
            time_step=0, position=Circle(0.5, np.array([8.0, 0.0])), orientation=0.0, velocity=3.0),
            TrajectoryPrediction(Trajectory(1, states), off)))
        ctx.feature("uncertain-regions-under-off-centre-shape")
        # custom states with position, orientation AND both velocity components (what the XML reader builds)
        states = [st.CustomState(time_step=1 + k, position=np.array([2.0 + k, -3.0]), orientation=0.2 * k, velocity=4.0,
                                 velocity_y=1.0 + k) for k in range(3)]
        sc.add_objects(DynamicObstacle(nid + 4, ObstacleType.CAR, shape, st.InitialState(
            time_step=0, position=np.array([1.0, -3.0]), orientation=0.0, velocity=4.0),
            TrajectoryPrediction(Trajectory(1, states), shape)))

    def drive(sc, pps, rng, tag, nops, first=()):
        base_snap = snapshot(sc, pps)
        base_exp = exports(sc, pps)
        try:
            base_ans = answers(sc)
        except Exception:  # noqa  (e.g. a network whose index was never built: not judged)
            base_ans = None
        seq = []
        for k_ in range(nops):
            # the first operations of a sequence are fixed by the case index (every operation meets every kind of
            # scenario in every run), the rest is drawn at random
            op = first[k_] if k_ < len(first) else rng.choice(OPS)
            seq.append(op)
            try:
                do(op, sc, pps, rng)
            except ArgChanged as e:
                ctx.violation("C18/argument-changed/%s/%s/%s" % (e.args[0], e.args[1], ",".join(e.args[2])),
                              "operation %s altered attributes %s of the %s passed to it" % (e.args[0], e.args[2], e.args[1]),
                              {"source": tag, "operations": list(seq)})
            except Exception as e:  # noqa  (not judged here)
                ctx.counter("op-raised.%s.%s" % (op, type(e).__name__))
            ctx.feature("op." + op)
            ctx.evaluation()
            after = snapshot(sc, pps)
            dfs = S.diff(base_snap, after, S.real_ok_bits)
            wit = {"source": tag, "operations": list(seq)}
            if dfs:
                for p, a, b in dfs[:3]:
                    ctx.violation("C18/changed%s" % S.generalise(p), "operation %s: %s: before %s after %s" % (op, p, a, b),
                                  wit)
                return seq
            if base_ans is not None:
                ctx.counter("query-answers-rechecked")
                try:
                    ans = answers(sc)
                except Exception as e:  # noqa
                    ans = "raises-%s" % type(e).__name__
                if ans != base_ans:
                    k_ = next((k for k in base_ans if not isinstance(ans, dict) or ans.get(k) != base_ans[k]), "?")
                    ctx.violation("C18/query-answers-differ-afterwards/%s/after-%s" % (k_, op),
                                  "lanelet look-ups at fixed probe points answer differently after the operation sequence: "
                                  "%s -> %s" % (base_ans.get(k_), ans.get(k_) if isinstance(ans, dict) else ans), wit)
                    return seq
            if op in ("export_xml", "export_pb", "draw", "is_reached", "hash", "eq", "occupancy_set", "deepcopy", "pickle") \
                    or rng.random() < 0.15:
                exp = exports(sc, pps)
                for fmt in exp:
                    if exp[fmt] != base_exp[fmt]:
                        ctx.violation("C18/export-%s-differs-afterwards/after-%s" % (fmt, op),
                                      "exporting the scenario after the operation gives another file", wit)
                        return seq
        return seq

    n = ctx.pick(60, 4000)
    for i, rng in ctx.cases("generated", n):
        try:
            sc, pps = ScenarioGen(rng, i, "pb", hostile=False, ctx=None, defaults=(i % 3 == 0)).build()
            add_specials(sc, rng)
        except Exception as e:  # noqa
            ctx.violation("C18/harness/generator-raises-%s" % type(e).__name__, repr(e)[:200], {"i": i})
            continue
        # goal-lanelet tables of both container types
        from collections import defaultdict
        from commonroad.planning.goal import GoalRegion
        from commonroad.planning.planning_problem import PlanningProblem, PlanningProblemSet
        plist = []
        for k, pp in enumerate(pps.planning_problem_dict.values()):
            lan = pp.goal.lanelets_of_goal_position
            if lan is not None and (i + k) % 2 == 0:
                dd = defaultdict(list)
                dd.update(lan)
                plist.append(PlanningProblem(pp.planning_problem_id, pp.initial_state, GoalRegion(pp.goal.state_list, dd)))
                ctx.feature("goal-lanelets.defaultdict")
            else:
                plist.append(pp)
                if lan is not None:
                    ctx.feature("goal-lanelets.dict")
        pps = PlanningProblemSet(plist)
        if any(la.traffic_lights and la.successor for la in sc.lanelet_network.lanelets):
            ctx.feature("light-with-successors")
        seq = drive(sc, pps, rng, "generated-%d" % i, rng.randint(6, 14),
                    first=[OPS[(i * 4 + j_) % len(OPS)] for j_ in range(4)])
        ctx.fingerprint(["gen", i, seq])
        if i < 2:
            ctx.sample({"source": "generated", "operations": seq})
    files = fixtures(os.environ.get("VERIF_REPO", "/repo"))
    for j, rng in ctx.cases("fixtures", len(files) if not ctx.quick else min(len(files), 12)):
        try:
            sc, pps = io.read(files[j])
        except Exception:  # noqa
            continue
        if len(sc.lanelet_network.lanelets) == 0:
            continue
        ctx.feature("fixture")
        if any(pp.goal.lanelets_of_goal_position is not None for pp in pps.planning_problem_dict.values()):
            ctx.feature("goal-lanelets.defaultdict")
        seq = drive(sc, pps, rng, os.path.basename(files[j]), 8,
                    first=["export_xml", "cutout_copy", "draw", OPS[(j * 3) % len(OPS)], OPS[(j * 3 + 1) % len(OPS)]])
        ctx.fingerprint(["fix", j, seq])
