"""C12 — equality and hashing of scenario elements follow their contract.

For every class a factory builds a valid instance through the public constructor from a seeded rng; the same seed
with reversed set insertion gives the twin; each constructor parameter has a perturbation to a clearly different valid
value.  Laws: reflexive, deepcopy-equal, symmetric, insertion-order independent, single perturbation => unequal,
hash total, equal => equal hash."""
import copy
import math
import random
import warnings

CLAIM = True
RULE = ("per class (shapes, intervals, all state classes, trajectory, occupancy, predictions, obstacles, stop line, "
        "lanelet, signs, lights, intersections, areas, network, goal region, planning problems, ids, location, "
        "scenario): seeded instances incl. the all-defaults instance, their reversed-set-insertion twin and one "
        "variant per constructor parameter (reals shifted by 1e-6 and by 0.5, other enum member, other id, element "
        "added/removed/changed); a case = (class, instance seed); distinct = distinct (class, seed, params "
        "perturbed); non-trivial = instance built with optional arguments populated")
ANCHORS = ["State.__eq__", "Lanelet.__eq__", "Obstacle.__eq__", "Obstacle.__hash__", "LaneletNetwork.__eq__",
           "Scenario.__eq__", "Rectangle.__eq__", "GoalRegion.__eq__", "TrajectoryPrediction.__eq__",
           "TrafficSign.__eq__", "Intersection.__eq__"]
REQUIRED = ["law.reflexive", "law.deepcopy", "law.symmetric", "law.twin", "law.perturbation", "law.hash-total",
            "law.hash-consistent", "defaults-instance", "law.kwargs-order", "law.cross-class-state", "law.optional-subsets", "law.derived-attribute-twin",
            "coordinates-of-different-magnitude", "law.after-update_initial_state", "law.assembly-twin", "law.moved-after-compared", "law.other-representation", "law.other-representation.array-dtype", "law.inspected-twin", "perturbation.emptied-collection", "law.none-vs-empty-twin", "law.two-spellings-of-an-instant", "perturbation.member-other-than-the-last-changed", "law.default-instances-share-nothing",
            "class.Polygon.large", "class.Lanelet.large"]
ASSUMPTIONS = ["perturbations are clearly different valid values (never a duplicate; a reordering only for the member lists of shape groups and light cycles, whose order carries meaning)",
               "real perturbations are >= 1e-6, i.e. far above the documented 1e-10 resolution"]
SHARDS = {"quick": 4, "thorough": 16}


# ----------------------------------------------------------------------------------------------------- perturbations
def p_real(d):
    return lambda g, v: (v if v is not None else 0.0) + d


def p_arr(d, idx=(0,)):
    def f(g, v):
        import numpy as np
        w = np.array(v, dtype=float).copy()
        w[idx] = w[idx] + d
        return w
    return f


def p_bool(g, v):
    return not bool(v)


def p_enum(g, v):
    members = list(type(v))
    return members[(members.index(v) + 1) % len(members)]


def p_int(g, v):
    return (v if v is not None else 0) + 8


def p_set_add(elem=4096):
    def f(g, v):
        s = set(v) if v is not None else set()
        s.add(elem if elem not in s else elem + 8)
        return s
    return f


def p_enumset(E):
    def f(g, v):
        s = set(v) if v is not None else set()
        for m in E:
            if m not in s:
                return s | {m}
        return set(list(s)[1:])
    return f


def p_list_drop(g, v):
    return list(v)[:-1]


def p_list_dup_changed(change):
    def f(g, v):
        v = list(v)
        v[-1] = change(g, v[-1])
        return v

    def f0(g, v):
        # the same change applied to the FIRST member (a difference is a difference wherever it sits in the collection)
        v = list(v)
        v[0] = change(g, v[0])
        return v
    f.first = f0
    return f


def p_reversed(fallback):
    """the members of an ORDERED collection in reverse order (where the order means something: the towing vehicle of a
    shape group comes first, the phases of a light follow each other); a palindrome gets the fallback perturbation"""
    def f(g, v):
        r = list(reversed(list(v)))
        try:
            same = r == list(v)
        except Exception:  # noqa
            same = True
        return fallback(g, v) if same else r
    return f


def p_str(g, v):
    return (v or "") + "x"


def p_interval(g, v):
    return type(v)(v.start, v.end + 0.25) if not isinstance(v.start, int) else type(v)(v.start, v.end + 1)


def p_angle_interval(g, v):
    from commonroad.common.util import AngleInterval
    return AngleInterval(v.start, v.end + 0.01)


def registry():
    """name -> (make(g) -> (ctor, kwargs, defaults_kwargs|None), {param: [perturbations]})"""
    import numpy as np
    import commonroad.scenario.state as st
    from commonroad.common.common_lanelet import LineMarking, StopLine
    from commonroad.common.util import AngleInterval, Interval, Time
    from commonroad.geometry.shape import Circle, Polygon, Rectangle, ShapeGroup
    from commonroad.planning.goal import GoalRegion
    from commonroad.planning.planning_problem import PlanningProblem, PlanningProblemSet
    from commonroad.prediction.prediction import Occupancy, SetBasedPrediction, TrajectoryPrediction
    from commonroad.scenario.area import Area, AreaBorder
    from commonroad.scenario.intersection import Intersection, IntersectionIncomingElement
    from commonroad.scenario.lanelet import Lanelet, LaneletNetwork, MapInformation
    from commonroad.scenario.obstacle import (DynamicObstacle, EnvironmentObstacle, ObstacleType, PhantomObstacle,
                                              StaticObstacle)
    from commonroad.scenario.scenario import Environment, GeoTransformation, Location, Scenario, ScenarioID
    from commonroad.scenario.traffic_light import (TrafficLight, TrafficLightCycle, TrafficLightCycleElement,
                                                   TrafficLightState)
    from commonroad.scenario.traffic_sign import TrafficSign, TrafficSignElement
    from commonroad.scenario.trajectory import Trajectory

    from commonroad.common.common_lanelet import LaneletType, RoadUser
    from commonroad.scenario.area import AreaType
    from commonroad.scenario.scenario import Tag
    R = {}
    small, large = p_real(1e-6), p_real(0.5)
    both = [small, large]
    arr_both = [p_arr(1e-6), p_arr(0.5), p_arr(1e-6, (1,))]
    other_shape = lambda g, v: g.circle(radius=7.25) if not isinstance(v, Circle) else g.rectangle()  # noqa
    other_state = lambda g, v: g.state(type(v).__name__, (v.time_step if isinstance(v.time_step, int) else 0) + 1)  # noqa

    R["Rectangle"] = (lambda g: (Rectangle, g.rectangle_kw(), {"length": 2.0, "width": 1.0}),
                      {"length": both, "width": both, "center": arr_both, "orientation": both})
    R["Circle"] = (lambda g: (Circle, g.circle_kw(), {"radius": 1.5}), {"radius": both, "center": arr_both})
    R["Polygon"] = (lambda g: (Polygon, {"vertices": g.polygon_vertices()}, None),
                    {"vertices": [p_arr(1e-6, (1, 0)), p_arr(0.5, (1, 1))]})
    # arrays with more than 1000 elements (numpy abbreviates their printed form): a change in the MIDDLE must be seen
    def big_ring(g):
        import math
        n = 520 + g.r.randint(0, 300)
        r0 = 20.0 + g.r.uniform(0, 30)
        return np.array([[r0 * math.cos(2 * math.pi * k / n), r0 * math.sin(2 * math.pi * k / n)] for k in range(n)])
    R["Polygon.large"] = (lambda g: (Polygon, {"vertices": big_ring(g)}, None),
                          {"vertices": [lambda g, v: _scale_row(v, len(v) // 2, 1.002),
                                        lambda g, v: _scale_row(v, len(v) // 3, 1.0 + 1e-6)]})

    def big_lanelet_kw(g):
        n = 510 + g.r.randint(0, 200)
        xs = np.arange(n, dtype=float) * 0.5
        c = np.stack([xs, np.sin(xs / 30.0)], 1)
        return {"left_vertices": c + np.array([0.0, 1.5]), "center_vertices": c, "right_vertices": c - np.array([0.0, 1.5]),
                "lanelet_id": g.r.randint(1, 99)}
    R["Lanelet.large"] = (lambda g: (Lanelet, big_lanelet_kw(g), None),
                          {k: [lambda g, v: _shift_row(v, len(v) // 2, 0.25), lambda g, v: _shift_row(v, len(v) // 2, 1e-6)]
                           for k in ("left_vertices", "center_vertices", "right_vertices")})
    R["AreaBorder.large"] = (lambda g: (AreaBorder, {"area_border_id": g.r.randint(1, 99),
                                                     "border_vertices": big_lanelet_kw(g)["center_vertices"]}, None),
                             {"border_vertices": [lambda g, v: _shift_row(v, len(v) // 2, 0.25)]})
    R["ShapeGroup"] = (lambda g: (ShapeGroup, {"shapes": [g.basic_shape() for _ in range(g.r.randint(1, 3))]}, None),
                       {"shapes": [p_list_dup_changed(other_shape), lambda g, v: list(v) + [g.circle(radius=9.5)],
                                   p_reversed(lambda g, v: list(v) + [g.circle(radius=9.25)])]})
    R["Interval"] = (lambda g: (Interval, {"start": g.real(), "end": 200.0 + g.real()}, None),
                     {"start": both, "end": both})
    R["AngleInterval"] = (lambda g: (AngleInterval, {"start": -1.0 + g.r.uniform(0, 0.5), "end": 0.5 + g.r.uniform(0, 1)},
                                     None), {"start": [p_real(1e-6), p_real(0.25)], "end": [p_real(1e-6), p_real(0.25)]})
    R["Time"] = (lambda g: (Time, g.time_kw(True), {"hours": 3, "minutes": 4}),
                 {k: [p_int] for k in ("hours", "minutes", "day", "month", "year")})

    def state_entry(clsname):
        cls = getattr(st, clsname)

        def make(g):
            return cls, g.state_kw(clsname, g.r.randint(0, 9), True), {"time_step": 1}
        pert = {"time_step": [p_int]}
        for f in Gen0.state_fields(clsname):
            if f == "position":
                pert[f] = arr_both + [lambda g, v: g.rectangle()]
            elif f == "orientation":
                pert[f] = both + [lambda g, v: AngleInterval(-0.5, 0.5)]
            else:
                pert[f] = both + [lambda g, v: Interval(v - 1, v + 1)]
        return make, pert

    from vf.gen.objects import Gen
    Gen0 = Gen(random.Random(0))
    for cn in Gen.STATE_CLASSES:
        R[cn] = state_entry(cn)
    R["CustomState"] = (lambda g: (st.CustomState, g.state_kw(None, 3, True, fields=["position", "orientation", "velocity",
                                                                                   "custom_x"]), None),
                        {"time_step": [p_int], "position": arr_both, "orientation": both, "velocity": both,
                         "custom_x": both})
    R["SignalState"] = (lambda g: (st.SignalState, dict(g.signal_state_kw(2), horn=True, indicator_left=False),
                                   {"time_step": 0}),
                        {"time_step": [p_int], "horn": [p_bool], "indicator_left": [p_bool]})
    R["Trajectory"] = (lambda g: (lambda initial_time_step, state_list: Trajectory(initial_time_step, state_list),
                                  (lambda tr: {"initial_time_step": tr.initial_time_step, "state_list": tr.state_list})(
                                      g.trajectory("KSState", g.r.randint(0, 5), n=g.r.randint(2, 4))), None),
                       {"state_list": [p_list_drop, p_list_dup_changed(
                           lambda g, s: st.KSState(**dict({a: getattr(s, a) for a in s.attributes},
                                                          velocity=s.velocity + 1e-6)))]})
    R["Occupancy"] = (lambda g: (Occupancy, {"time_step": g.r.randint(0, 9), "shape": g.basic_shape()}, None),
                      {"time_step": [p_int, lambda g, v: Interval(v, v + 2)], "shape": [other_shape]})
    R["SetBasedPrediction"] = (lambda g: (SetBasedPrediction, {"initial_time_step": 1, "occupancy_set": [
        g.occupancy(1 + k) for k in range(g.r.randint(1, 3))]}, None),
        {"initial_time_step": [p_int], "occupancy_set": [p_list_drop, lambda g, v: list(v) + [g.occupancy(17)]]})

    def mk_tp(g):
        tr = g.trajectory("KSState", 1, n=3)
        return TrajectoryPrediction, {"trajectory": tr, "shape": g.basic_shape(at_origin=True),
                                      "center_lanelet_assignment": {s.time_step: g.idset() for s in tr.state_list},
                                      "shape_lanelet_assignment": {s.time_step: g.idset() for s in tr.state_list}}, \
            {"trajectory": g.trajectory("KSState", 1, n=2), "shape": g.rectangle(at_origin=True)}
    R["TrajectoryPrediction"] = (mk_tp, {
        "trajectory": [lambda g, v: Trajectory(v.initial_time_step, v.state_list[:-1])],
        "shape": [other_shape],
        "center_lanelet_assignment": [lambda g, v: {**v, 1: set(v[1]) | {4096}}],
        "shape_lanelet_assignment": [lambda g, v: {**v, 2: set(v[2]) | {4096}}]})

    obst_common = {"obstacle_id": [p_int], "obstacle_type": [p_enum], "obstacle_shape": [other_shape],
                   "initial_state": [lambda g, v: g.state("InitialState", 0, velocity=777.5),
                                     lambda g, v: st.InitialState(**dict({a: getattr(v, a) for a in v.attributes},
                                                                         position=v.position + 1e-6))],
                   "initial_center_lanelet_ids": [p_set_add()], "initial_shape_lanelet_ids": [p_set_add()],
                   "initial_signal_state": [lambda g, v: st.SignalState(time_step=0, horn=not bool(getattr(v, "horn", False)),
                                                                      braking_lights=True)],
                   "signal_series": [lambda g, v: list(v or []) + [g.signal_state(44)]]}
    R["StaticObstacle"] = (lambda g: (StaticObstacle, g.obstacle_common_kw(g.r.randint(1, 99), True),
                                      {"obstacle_id": 5, "obstacle_type": ObstacleType.CAR,
                                       "obstacle_shape": g.rectangle(at_origin=True),
                                       "initial_state": g.state("InitialState", 0)}), dict(obst_common))
    dyn = dict(obst_common)
    dyn.update({"prediction": [lambda g, v: g.set_based_prediction(3) if not isinstance(v, SetBasedPrediction)
                               else None],
                "external_dataset_id": [p_int],
                "history": [lambda g, v: list(v or []) + [g.state("InitialState", -2)]],
                "signal_history": [lambda g, v: list(v or []) + [g.signal_state(-2)]],
                "center_lanelet_ids_history": [lambda g, v: list(v or []) + [{4096}]],
                "shape_lanelet_ids_history": [lambda g, v: list(v or []) + [{4096}]]})
    for kind in ("trajectory", "set", "none"):
        R["DynamicObstacle." + kind] = (
            (lambda kind: lambda g: (DynamicObstacle, g.dynamic_obstacle_kw(g.r.randint(1, 99), True, kind),
                                     {"obstacle_id": 5, "obstacle_type": ObstacleType.CAR,
                                      "obstacle_shape": g.rectangle(at_origin=True),
                                      "initial_state": g.state("InitialState", 0)}))(kind), dyn)
    R["PhantomObstacle"] = (lambda g: (PhantomObstacle, {"obstacle_id": g.r.randint(1, 99),
                                                         "prediction": g.set_based_prediction()}, {"obstacle_id": 3}),
                            {"obstacle_id": [p_int], "prediction": [lambda g, v: g.set_based_prediction(9)]})
    R["EnvironmentObstacle"] = (lambda g: (EnvironmentObstacle, {"obstacle_id": g.r.randint(1, 99),
                                                                 "obstacle_type": ObstacleType.BUILDING,
                                                                 "obstacle_shape": g.basic_shape()}, None),
                                {"obstacle_id": [p_int], "obstacle_type": [p_enum], "obstacle_shape": [other_shape]})
    R["StopLine"] = (lambda g: (StopLine, g.stop_line_kw(True), (lambda k: {a: k[a] for a in ("start", "end",
                                                                                             "line_marking")})(
        g.stop_line_kw(False))),
        {"start": arr_both, "end": arr_both, "line_marking": [p_enum], "traffic_sign_ref": [p_set_add()],
         "traffic_light_ref": [p_set_add()]})
    R["StopLine.pointless"] = (lambda g: (StopLine, {"start": None, "end": None, "line_marking": g.enum(LineMarking),
                                                   "traffic_sign_ref": g.idset(), "traffic_light_ref": g.idset()},
                                          {"start": None, "end": None, "line_marking": LineMarking.SOLID}),
                               {"line_marking": [p_enum], "traffic_sign_ref": [p_set_add()],
                                "start": [lambda g, v: np.array([1.0, 2.0])]})
    lan_p = {"left_vertices": [p_arr(1e-6, (0, 1)), p_arr(0.5, (1, 1))], "center_vertices": [p_arr(1e-6, (0, 1)),
                                                                                              p_arr(0.5, (1, 0))],
             "right_vertices": [p_arr(1e-6, (1, 1)), p_arr(0.5, (0, 0))], "lanelet_id": [p_int],
             "predecessor": [lambda g, v: list(v or []) + [4096]], "successor": [lambda g, v: list(v or []) + [4096]],
             "adjacent_left": [p_int], "adjacent_left_same_direction": [p_bool], "adjacent_right": [p_int],
             "adjacent_right_same_direction": [p_bool], "line_marking_left_vertices": [p_enum],
             "line_marking_right_vertices": [p_enum],
             "stop_line": [lambda g, v: g.stop_line(start=v.start + 1.0) if v is not None else g.stop_line()],
             "lanelet_type": [p_enumset(LaneletType)], "user_one_way": [p_enumset(RoadUser)],
             "user_bidirectional": [p_enumset(RoadUser)],
             "traffic_signs": [p_set_add()], "traffic_lights": [p_set_add()], "adjacent_areas": [p_set_add()]}
    R["Lanelet"] = (lambda g: (Lanelet, g.lanelet_kw(g.r.randint(1, 99), True),
                               (lambda k: {a: k[a] for a in ("left_vertices", "center_vertices", "right_vertices",
                                                             "lanelet_id")})(g.lanelet_kw(7, False))), lan_p)
    R["TrafficSignElement"] = (lambda g: (TrafficSignElement, g.sign_element_kw(), None),
                               {"traffic_sign_element_id": [p_enum],
                                "additional_values": [lambda g, v: list(v) + ["99"]]})
    R["TrafficSign"] = (lambda g: (TrafficSign, g.traffic_sign_kw(g.r.randint(1, 99)), None),
                        {"traffic_sign_id": [p_int], "position": arr_both, "virtual": [p_bool],
                         "first_occurrence": [p_set_add()],
                         "traffic_sign_elements": [lambda g, v: list(v) + [TrafficSignElement(
                             _unused_sign_id(v), ["1"])], p_list_dup_changed(
                             lambda g, e: TrafficSignElement(e.traffic_sign_element_id,
                                                             list(e.additional_values) + ["77"]))]})
    R["TrafficLightCycleElement"] = (lambda g: (TrafficLightCycleElement, {"state": g.enum(TrafficLightState),
                                                                           "duration": g.r.randint(1, 9)}, None),
                                     {"state": [p_enum], "duration": [p_int]})
    R["TrafficLightCycle"] = (lambda g: (TrafficLightCycle, g.cycle_kw(), {}),
                              {"cycle_elements": [p_list_drop if False else (lambda g, v: list(v) + [g.cycle_element()]),
                                                  p_list_dup_changed(lambda g, e: TrafficLightCycleElement(
                                                      e.state, e.duration + 1)),
                                                  p_reversed(lambda g, v: list(v) + [g.cycle_element()])],
                               "time_offset": [p_int], "active": [p_bool]})
    R["TrafficLight"] = (lambda g: (TrafficLight, g.traffic_light_kw(g.r.randint(1, 99), True),
                                    {"traffic_light_id": 4, "position": g.pos()}),
                         {"traffic_light_id": [p_int], "position": arr_both,
                          "traffic_light_cycle": [lambda g, v: g.cycle(time_offset=(v.time_offset if v else 0) + 3)],
                          "color": [lambda g, v: list(v or []) + [TrafficLightState.INACTIVE] if
                                    TrafficLightState.INACTIVE not in (v or []) else [x for x in v if
                                                                                      x != TrafficLightState.INACTIVE]],
                          "active": [p_bool], "direction": [p_enum],
                          "shape": [lambda g, v: g.rectangle(length=9.75)]})
    # a light / sign whose position is not known (the formats allow a light without position; the readers produce None)
    R["TrafficLight.positionless"] = (lambda g: (TrafficLight, dict(g.traffic_light_kw(g.r.randint(1, 99), True),
                                                                    position=None),
                                                 {"traffic_light_id": 4, "position": None}),
                                      {"traffic_light_id": [p_int], "active": [p_bool], "direction": [p_enum],
                                       "position": [lambda g, v: np.array([1.0, 2.0])]})
    R["TrafficSign.positionless"] = (lambda g: (TrafficSign, dict(g.traffic_sign_kw(g.r.randint(1, 99)), position=None),
                                                None),
                                     {"traffic_sign_id": [p_int], "virtual": [p_bool], "first_occurrence": [p_set_add()],
                                      "position": [lambda g, v: np.array([1.0, 2.0])]})
    R["IntersectionIncomingElement"] = (lambda g: (IntersectionIncomingElement, g.incoming_kw(g.r.randint(1, 99), True),
                                                   {"incoming_id": 3}),
                                        {"incoming_id": [p_int], "incoming_lanelets": [p_set_add()],
                                         "successors_right": [p_set_add()], "successors_straight": [p_set_add()],
                                         "successors_left": [p_set_add()], "left_of": [p_int]})
    R["Intersection"] = (lambda g: (Intersection, g.intersection_kw(g.r.randint(1, 99), True),
                                    {"intersection_id": 3, "incomings": [g.incoming(9, full=True)]}),
                         {"intersection_id": [p_int], "crossings": [p_set_add()],
                          "incomings": [lambda g, v: list(v) + [g.incoming(999, full=True)],
                                        p_list_dup_changed(lambda g, e: IntersectionIncomingElement(
                                            e.incoming_id, e.incoming_lanelets, e.successors_right,
                                            set(e.successors_straight) | {4096}, e.successors_left, e.left_of))]})
    R["AreaBorder"] = (lambda g: (AreaBorder, g.area_border_kw(g.r.randint(1, 99), True),
                                  {"area_border_id": 2, "border_vertices": np.array([[0.0, 0.0], [1.0, 0.0]])}),
                       {"area_border_id": [p_int], "border_vertices": [p_arr(1e-6, (0, 0)), p_arr(0.5, (1, 1))],
                        "adjacent": [lambda g, v: list(v or []) + [4096]], "line_marking": [p_enum]})
    R["Area"] = (lambda g: (Area, g.area_kw(g.r.randint(1, 99), True), {"area_id": 2}),
                 {"area_id": [p_int], "border": [lambda g, v: list(v) + [g.area_border(77)]],
                  "area_types": [p_enumset(AreaType)]})
    R["MapInformation"] = (lambda g: (MapInformation, {"commonroad_version": "2023a", "map_id": "DEU_X-1",
                                                      "date": g.time(full=True), "author": "a", "affiliation": "b",
                                                      "source": "c", "licence_name": "d", "licence_text": "e"}, None),
                           {"commonroad_version": [p_str], "map_id": [p_str], "date": [lambda g, v: Time(v.hours, (
                               v.minutes + 1) % 60, v.day, v.month, v.year)], "author": [p_str],
                            "affiliation": [p_str], "source": [p_str], "licence_name": [p_str],
                            "licence_text": [p_str]})

    def mk_net(g):
        def ctor(lanelets, signs, lights, intersections, areas, information):
            net = LaneletNetwork(information)
            for la in lanelets:
                net.add_lanelet(la)
            for s in signs:
                net.add_traffic_sign(s, set())
            for tl in lights:
                net.add_traffic_light(tl, set())
            for i in intersections:
                net.add_intersection(i)
            for a in areas:
                net.add_area(a, set())
            return net
        info = MapInformation(date=Time(1, 2, 3, 4, 2020))
        kw = {"lanelets": [g.lanelet(8 * (k + 1), full=True) for k in range(g.r.randint(1, 3))],
              "signs": [g.traffic_sign(201)], "lights": [g.traffic_light(301, full=True)],
              "intersections": [g.intersection(401, full=True)], "areas": [g.area(501, full=True)],
              "information": info}
        return ctor, kw, None
    R["LaneletNetwork"] = (mk_net, {
        "lanelets": [lambda g, v: list(v) + [g.lanelet(4096, full=True)],
                     p_list_dup_changed(lambda g, la: _lanelet_with(la, traffic_signs=set(la.traffic_signs) | {4096}))],
        "signs": [lambda g, v: list(v) + [g.traffic_sign(4097)],
                  p_list_dup_changed(lambda g, s: TrafficSign(s.traffic_sign_id, s.traffic_sign_elements,
                                                              s.first_occurrence, s.position, not s.virtual))],
        "lights": [lambda g, v: list(v) + [g.traffic_light(4098)]],
        "intersections": [lambda g, v: list(v) + [g.intersection(4099, full=True)]],
        "areas": [lambda g, v: list(v) + [g.area(4100, full=True)]],
        "information": [lambda g, v: MapInformation(author="zz", date=v.date)]})
    R["GoalRegion"] = (lambda g: (GoalRegion, g.goal_region_kw(True), None),
                       {"state_list": [lambda g, v: list(v) + [g.goal_state(fields=("velocity",))],
                                       p_list_dup_changed(lambda g, s: _goal_state_shift(s))],
                        "lanelets_of_goal_position": [lambda g, v: {0: list(v[0]) + [4096]}, lambda g, v: None]})
    R["PlanningProblem"] = (lambda g: (PlanningProblem, g.planning_problem_kw(g.r.randint(1, 99)), None),
                            {"planning_problem_id": [p_int],
                             "initial_state": [lambda g, v: g.state("InitialState", 0, velocity=777.5),
                                               lambda g, v: st.InitialState(**dict(
                                                   {a: getattr(v, a) for a in v.attributes},
                                                   position=v.position + 1e-6))],
                             "goal_region": [lambda g, v: g.goal_region()]})
    R["PlanningProblemSet"] = (lambda g: (PlanningProblemSet, {"planning_problem_list": [
        g.planning_problem(900 + k) for k in range(g.r.randint(1, 3))]}, {}),
        {"planning_problem_list": [lambda g, v: list(v) + [g.planning_problem(4096)], p_list_drop if False else (
            lambda g, v: list(v)[1:])]})
    R["ScenarioID.multi"] = (lambda g: (ScenarioID, dict(g.scenario_id_kw(), configuration_id=2, obstacle_behavior="P",
                                                         prediction_id=[3, 5]), None),
                             {"prediction_id": [lambda g, v: list(v) + [7]], "map_id": [p_int]})
    R["ScenarioID"] = (lambda g: (ScenarioID, dict(g.scenario_id_kw(), configuration_id=2, obstacle_behavior="T",
                                                   prediction_id=3), {}),
                       {"cooperative": [p_bool], "country_id": [lambda g, v: "DEU" if v != "DEU" else "USA"],
                        "map_name": [p_str], "map_id": [p_int], "configuration_id": [p_int],
                        "obstacle_behavior": [lambda g, v: "S" if v != "S" else "T"], "prediction_id": [p_int],
                        "scenario_version": [lambda g, v: "2018b"]})
    R["GeoTransformation"] = (lambda g: (GeoTransformation, g.geo_transformation_kw(), {}),
                              {"geo_reference": [p_str], "x_translation": both, "y_translation": both,
                               "z_rotation": both, "scaling": both})
    R["Environment"] = (lambda g: (Environment, g.environment_kw(), {}),
                        {"time": [lambda g, v: Time((v.hours + 1) % 24, v.minutes)], "time_of_day": [p_enum],
                         "weather": [p_enum], "underground": [p_enum]})
    R["Location"] = (lambda g: (Location, g.location_kw(True), {}),
                     {"geo_name_id": [p_int], "gps_latitude": both, "gps_longitude": both,
                      "geo_transformation": [lambda g, v: g.geo_transformation(scaling=3.5)],
                      "environment": [lambda g, v: g.environment(time=Time(1, 1))]})

    def mk_sc(g):
        def ctor(network=None, static=(), dynamic=(), phantom=(), environment=(), **kw):
            sc = Scenario(**kw)
            if network is not None:
                sc.add_objects(network)
            for o in list(static) + list(dynamic) + list(phantom) + list(environment):
                sc.add_objects(o)
            return sc
        kw = g.scenario_kw(True)
        net = g.lanelet_network()
        g.lanelet_pool = [la.lanelet_id for la in net.lanelets]
        kw.update({"network": net, "static": [g.static_obstacle(1001, with_optional=True)],
                   "dynamic": [g.dynamic_obstacle(1002, with_optional=True)], "phantom": [g.phantom_obstacle(1003)],
                   "environment": [g.environment_obstacle(1004)]})
        return ctor, kw, {"dt": 0.1}
    R["Scenario"] = (mk_sc, {
        "dt": [p_real(0.05)], "scenario_id": [lambda g, v: g.scenario_id(map_id=v.map_id + 1)], "author": [p_str],
        "tags": [p_enumset(Tag)], "affiliation": [p_str], "source": [p_str],
        "location": [lambda g, v: g.location(full=True, geo_name_id=4096)],
        "network": [lambda g, v: g.lanelet_network(n_lanelets=4)],
        "static": [lambda g, v: list(v) + [g.static_obstacle(4096)]],
        "dynamic": [lambda g, v: list(v) + [g.dynamic_obstacle(4097)]],
        "phantom": [lambda g, v: list(v) + [g.phantom_obstacle(4098)]],
        "environment": [lambda g, v: list(v) + [g.environment_obstacle(4099)]]})
    return R


def _scale_row(v, k, f):
    import numpy as np
    w = np.array(v, dtype=float).copy()
    w[k] = w[k] * f
    return w


def _shift_row(v, k, d):
    import numpy as np
    w = np.array(v, dtype=float).copy()
    w[k, 1] += d
    return w


def _unused_sign_id(elements):
    from commonroad.scenario.traffic_sign import TrafficSignIDZamunda
    used = {e.traffic_sign_element_id for e in elements}
    for m in TrafficSignIDZamunda:
        if m not in used:
            return m


def _lanelet_with(la, **over):
    from commonroad.scenario.lanelet import Lanelet
    kw = dict(left_vertices=la.left_vertices, center_vertices=la.center_vertices, right_vertices=la.right_vertices,
              lanelet_id=la.lanelet_id, predecessor=list(la.predecessor), successor=list(la.successor),
              adjacent_left=la.adj_left, adjacent_left_same_direction=la.adj_left_same_direction,
              adjacent_right=la.adj_right, adjacent_right_same_direction=la.adj_right_same_direction,
              line_marking_left_vertices=la.line_marking_left_vertices,
              line_marking_right_vertices=la.line_marking_right_vertices, stop_line=la.stop_line,
              lanelet_type=la.lanelet_type, user_one_way=la.user_one_way, user_bidirectional=la.user_bidirectional,
              traffic_signs=la.traffic_signs, traffic_lights=la.traffic_lights, adjacent_areas=la.adjacent_areas)
    kw.update(over)
    return Lanelet(**kw)


def _goal_state_shift(s):
    from commonroad.common.util import Interval
    t = copy.deepcopy(s)
    t.time_step = Interval(s.time_step.start, s.time_step.end + 1)
    return t


def run(ctx):
    warnings.simplefilter("ignore")
    from vf.gen.objects import Gen
    R = registry()
    names = sorted(R)
    per_class = ctx.pick(12, 400)

    def safe(f, *a):
        try:
            return ("ok", f(*a))
        except Exception as e:  # noqa
            return ("exc", e)

    def eq_ops(x, y):
        """(x==y, y==x, x!=y, y!=x) or an exception record"""
        return safe(lambda: (bool(x == y), bool(y == x), bool(x != y), bool(y != x)))

    for idx, rng in ctx.cases("instances", len(names) * per_class):
        name = names[idx % len(names)]
        k = idx // len(names)
        make, perts = R[name]
        seed = rng.getrandbits(48)

        def mkgen(rev=False):
            g_ = Gen(random.Random(seed), reverse_sets=rev)
            g_.far = (k % 3 == 2)  # coordinates of very different magnitude within one array
            return g_

        def build(rev=False, pert=None, defaults=False):
            g = mkgen(rev)
            ctor, kw, dflt = make(g)
            if defaults:
                if dflt is None:
                    return None
                kw = dflt
            if pert is not None:
                p, fn = pert
                if p not in kw and not defaults:
                    kw[p] = None
                kw = dict(kw)
                newv = fn(Gen(random.Random(seed + 1)), kw.get(p))
                kw[p] = newv
            return ctor(**kw), kw

        use_defaults = (k == 0)
        if k % 3 == 2:
            ctx.feature("coordinates-of-different-magnitude")
        try:
            b = build(defaults=use_defaults)
            if b is None:
                use_defaults = False
                b = build()
            x, kw = b
        except Exception as e:  # noqa
            ctx.violation("C12/%s/construct-raises-%s" % (name, type(e).__name__), repr(e), {"class": name})
            continue
        ctx.evaluation()
        if use_defaults:
            ctx.feature("defaults-instance")
        else:
            ctx.fingerprint([name, seed])
        ctx.feature("class." + name)
        if k == 1 and idx % 7 == 0:
            ctx.sample({"class": name, "constructor_params": sorted(kw), "seed": seed})
        tag = "defaults" if use_defaults else "populated"

        def V(law, detail, param=None):
            key = "C12/%s/%s" % (name, law) + ("/" + param if param else "") + ("/defaults-instance" if use_defaults
                                                                                 else "")
            ctx.violation(key, detail, {"class": name, "seed": seed, "param": param, "instance": tag})

        # L1 reflexive
        ctx.feature("law.reflexive")
        r = eq_ops(x, x)
        if r[0] == "exc":
            V("eq-raises-%s" % type(r[1]).__name__, repr(r[1]))
            continue
        if r[1] != (True, True, False, False):
            V("not-reflexive", "x==x -> %s" % (r[1],))
        # L6 hash total
        ctx.feature("law.hash-total")
        h = safe(hash, x)
        if h[0] == "exc":
            V("hash-raises-%s" % type(h[1]).__name__, repr(h[1]))
        # L2 deepcopy
        ctx.feature("law.deepcopy")
        c = safe(copy.deepcopy, x)
        if c[0] == "exc":
            V("deepcopy-raises-%s" % type(c[1]).__name__, repr(c[1]))
        else:
            r = eq_ops(x, c[1])
            if r[0] == "exc":
                V("eq-raises-%s" % type(r[1]).__name__, repr(r[1]))
            elif r[1] != (True, True, False, False):
                V("deepcopy-not-equal", "x==deepcopy(x) -> %s" % (r[1],))
            elif h[0] == "ok":
                ctx.feature("law.hash-consistent")
                h2 = safe(hash, c[1])
                if h2[0] == "ok" and h2[1] != h[1]:
                    V("equal-but-hash-differs", "deepcopy")
        # L4 twin with reversed set insertion
        if not use_defaults:
            ctx.feature("law.twin")
            tw = safe(lambda: build(rev=True)[0])
            if tw[0] == "ok":
                r = eq_ops(x, tw[1])
                if r[0] == "ok" and r[1] != (True, True, False, False):
                    V("set-insertion-order-matters", "x==twin -> %s" % (r[1],))
                elif r[0] == "ok" and h[0] == "ok":
                    h2 = safe(hash, tw[1])
                    if h2[0] == "ok" and h2[1] != h[1]:
                        V("equal-but-hash-differs", "twin")
        # L4b the order in which keyword arguments are given is not an attribute value: same values, other order
        ctx.feature("law.kwargs-order")
        ko = safe(lambda: make(mkgen())[0](**dict(reversed(list(
            (make(mkgen())[2] if use_defaults else make(mkgen())[1]).items())))))
        if ko[0] == "ok":
            r = eq_ops(x, ko[1])
            if r[0] == "ok" and r[1] != (True, True, False, False):
                V("keyword-order-matters", "x==same-values-other-keyword-order -> %s" % (r[1],))
            elif r[0] == "ok" and h[0] == "ok":
                h2 = safe(hash, ko[1])
                if h2[0] == "ok" and h2[1] != h[1]:
                    V("equal-but-hash-differs", "keyword-order")
        # L4c a custom state with exactly the attributes of a typed state: whenever the library calls them equal, the
        # hashes must agree
        if hasattr(x, "attributes") and hasattr(x, "time_step") and not use_defaults:
            import commonroad.scenario.state as st_
            cs = safe(lambda: st_.CustomState(**{a: getattr(x, a) for a in reversed(list(x.attributes))}))
            if cs[0] == "ok":
                r = eq_ops(x, cs[1])
                if r[0] == "ok" and r[1][0] != r[1][1]:
                    V("not-symmetric", "typed state vs custom state with the same attributes: %s" % (r[1],))
                elif r[0] == "ok" and r[1][0] and h[0] == "ok":
                    ctx.feature("law.cross-class-state")
                    h2 = safe(hash, cs[1])
                    if h2[0] == "ok" and h2[1] != h[1]:
                        V("equal-but-hash-differs", "custom-state-with-same-attributes")
        # L8 an obstacle whose initial state was advanced through the public update_initial_state (the history lists now
        # hold what the obstacle had before, possibly unset values) still compares and hashes
        if name.startswith("DynamicObstacle") and c[0] == "ok":
            import commonroad.scenario.state as st_
            y8 = c[1]
            s8 = y8.initial_state
            adv = safe(lambda: y8.update_initial_state(st_.InitialState(**dict(
                {a_: getattr(s8, a_) for a_ in s8.attributes}, time_step=s8.time_step + 1))))
            if adv[0] == "ok":
                ctx.feature("law.after-update_initial_state")
                ctx.evaluation()
                r = eq_ops(y8, y8)
                if r[0] == "exc":
                    V("eq-raises-%s/after-update_initial_state" % type(r[1]).__name__, repr(r[1]))
                elif r[1] != (True, True, False, False):
                    V("not-reflexive/after-update_initial_state", "x==x -> %s" % (r[1],))
                h8 = safe(hash, y8)
                if h8[0] == "exc":
                    V("hash-raises-%s/after-update_initial_state" % type(h8[1]).__name__, repr(h8[1]))
        # L9 scenarios with identical content that were ASSEMBLED differently (an element added through the scenario vs
        # through its lanelet network) are equal and hash equally: equality is about attribute values, not about the
        # route that produced them
        if name == "Scenario" and not use_defaults:
            a9, b9 = safe(lambda: build()[0]), safe(lambda: build()[0])
            if a9[0] == "ok" and b9[0] == "ok":
                e1, e2 = mkgen().lanelet(4097, full=False), mkgen().lanelet(4097, full=False)
                r9 = safe(lambda: (a9[1].add_objects(e1), b9[1].lanelet_network.add_lanelet(e2)))
                if r9[0] == "ok":
                    ctx.feature("law.assembly-twin")
                    ctx.evaluation()
                    r = eq_ops(a9[1], b9[1])
                    if r[0] == "exc":
                        V("eq-raises-%s/assembly-twin" % type(r[1]).__name__, repr(r[1]))
                    elif r[1] != (True, True, False, False):
                        V("identical-content-assembled-differently-not-equal", "x==y -> %s" % (r[1],))
                    else:
                        ha, hb = safe(hash, a9[1]), safe(hash, b9[1])
                        if ha[0] == "ok" and hb[0] == "ok" and ha[1] != hb[1]:
                            V("equal-but-hash-differs", "assembly-twin")
        # L10 equality is about the CURRENT attribute values: an object that was compared and hashed, then moved in place
        # (translate_rotate), equals -- and hashes like -- a twin that went through the same motion without ever having
        # been compared or hashed before; both relate to the object at the old place in the same way
        if not use_defaults and hasattr(x, "translate_rotate"):
            import numpy as np_
            w10, c10 = safe(lambda: build()[0]), safe(lambda: build()[0])
            if w10[0] == "ok" and c10[0] == "ok":
                old10 = safe(copy.deepcopy, c10[1])
                _ = safe(hash, w10[1]), eq_ops(w10[1], x), eq_ops(w10[1], w10[1])  # fills whatever is memoised
                tr10, an10 = np_.array([3.5, -2.25]), 0.5
                mw, mc = safe(lambda: w10[1].translate_rotate(tr10, an10)), safe(lambda: c10[1].translate_rotate(tr10, an10))
                if mw[0] == "ok" and mc[0] == "ok":
                    mw = mw[1] if mw[1] is not None else w10[1]
                    mc = mc[1] if mc[1] is not None else c10[1]
                    ctx.feature("law.moved-after-compared")
                    ctx.counter("law.moved-after-compared." + name)
                    ctx.evaluation()
                    r = eq_ops(mw, mc)
                    if r[0] == "exc":
                        V("eq-raises-%s/moved-after-compared" % type(r[1]).__name__, repr(r[1]))
                    elif r[1] != (True, True, False, False):
                        V("moved-after-compared-differs-from-moved-twin", "x==y -> %s" % (r[1],))
                    else:
                        ha, hb = safe(hash, mw), safe(hash, mc)
                        if ha[0] == "ok" and hb[0] == "ok" and ha[1] != hb[1]:
                            V("equal-but-hash-differs", "moved-after-compared")
                        if old10[0] == "ok":
                            ra, rb = eq_ops(mw, old10[1]), eq_ops(mc, old10[1])
                            if ra[0] == "ok" and rb[0] == "ok" and ra[1] != rb[1]:
                                V("moved-after-compared-still-equals-old-place", "compared-then-moved vs old: %s; "
                                  "moved twin vs old: %s" % (ra[1], rb[1]))
        # L12 reading an object's public attributes / properties (some are computed on first access) is no attribute change:
        # an inspected object still equals -- and hashes like -- its never-inspected twin
        if not use_defaults:
            t12 = safe(lambda: build()[0])
            if t12[0] == "ok":
                for a_ in dir(t12[1]):
                    if not a_.startswith("_"):
                        safe(getattr, t12[1], a_)
                ctx.feature("law.inspected-twin")
                ctx.evaluation()
                r = eq_ops(x, t12[1])
                if r[0] == "exc":
                    V("eq-raises-%s/inspected-twin" % type(r[1]).__name__, repr(r[1]))
                elif r[1] != (True, True, False, False):
                    V("inspected-object-differs-from-twin", "x==inspected twin -> %s" % (r[1],))
                elif h[0] == "ok":
                    h2 = safe(hash, t12[1])
                    if h2[0] == "ok" and h2[1] != h[1]:
                        V("equal-but-hash-differs", "inspected-twin")
        # L11 the same value in another REPRESENTATION (a single prediction id given as a one-element list, an integer-valued
        # float, a numpy integer): the statement does not say whether such objects are equal -- but whatever == answers,
        # it answers symmetrically, and equal objects hash equally
        if not use_defaults:
            import numpy as np_
            rep = []
            for p_, v_ in kw.items():
                if name == "ScenarioID" and p_ == "prediction_id" and isinstance(v_, int):
                    rep.append((p_, [v_]))
                elif isinstance(v_, bool) or v_ is None:
                    continue
                elif isinstance(v_, int):
                    rep.append((p_, float(v_)))
                    rep.append((p_, np_.int64(v_)))
                elif isinstance(v_, float) and v_ == int(v_) and abs(v_) < 2 ** 40:
                    rep.append((p_, int(v_)))
            # arrays: the same integer-valued coordinates once as a float array, once as an integer array
            for p_, v_ in kw.items():
                if isinstance(v_, np_.ndarray) and v_.dtype.kind == "f" and v_.size and np_.abs(v_).max() < 2 ** 40:
                    fa_ = np_.round(v_)
                    xa = safe(lambda: make(mkgen())[0](**dict(make(mkgen())[1], **{p_: fa_.astype(float)})))
                    ya = safe(lambda: make(mkgen())[0](**dict(make(mkgen())[1], **{p_: fa_.astype(int)})))
                    if xa[0] != "ok" or ya[0] != "ok":
                        continue
                    ctx.feature("law.other-representation.array-dtype")
                    ctx.evaluation()
                    r = eq_ops(xa[1], ya[1])
                    if r[0] == "exc":
                        continue
                    if r[1][0] != r[1][1] or r[1][2] != r[1][3] or r[1][0] == r[1][2]:
                        V("not-symmetric", "%s as float / int array: %s" % (p_, r[1],), p_)
                    elif r[1][0]:
                        ha_, hb_ = safe(hash, xa[1]), safe(hash, ya[1])
                        if ha_[0] == "ok" and hb_[0] == "ok" and ha_[1] != hb_[1]:
                            V("equal-but-hash-differs", "%s given as float array / as integer array" % p_, p_)
            for p_, alt in rep[:6]:
                y11 = safe(lambda: make(mkgen())[0](**dict(make(mkgen())[1], **{p_: alt})))
                if y11[0] != "ok":
                    continue
                ctx.feature("law.other-representation")
                ctx.counter("law.other-representation.%s.%s" % (name, type(alt).__name__))
                ctx.evaluation()
                r = eq_ops(x, y11[1])
                if r[0] == "exc":
                    continue
                if r[1][0] != r[1][1] or r[1][2] != r[1][3] or r[1][0] == r[1][2]:
                    V("not-symmetric", "%s given as %r: (x==y, y==x, x!=y, y!=x) = %s" % (p_, alt, r[1],), p_)
                elif r[1][0] and h[0] == "ok":
                    h2 = safe(hash, y11[1])
                    if h2[0] == "ok" and h2[1] != h[1]:
                        V("equal-but-hash-differs", "%s given as %r (%s)" % (p_, alt, type(alt).__name__), p_)
        # L7 every optional argument on its own / left out on its own (one-sided combinations of optional arguments):
        # such objects are built through the public constructor too, so ==, hash and deepcopy must work on them
        if not use_defaults and k % 2 == 1:
            g7 = mkgen()
            ctor7, kw7, dflt7 = make(g7)
            if dflt7 is not None:
                optional = [p_ for p_ in kw7 if p_ not in dflt7]
                variants = [("only-" + p_, dict(dflt7, **{p_: kw7[p_]})) for p_ in optional] + \
                           [("without-" + p_, {q_: v_ for q_, v_ in kw7.items() if q_ != p_}) for p_ in optional]
                for vname, vkw in variants:
                    z = safe(lambda: ctor7(**vkw))
                    if z[0] == "exc":
                        ctx.counter("optional-subset-not-constructible")
                        continue
                    ctx.evaluation()
                    ctx.feature("law.optional-subsets")
                    what = vname.split("-", 1)
                    r = eq_ops(z[1], z[1])
                    if r[0] == "exc":
                        V("eq-raises-%s/%s" % (type(r[1]).__name__, what[0]), repr(r[1]), what[1])
                        continue
                    if r[1] != (True, True, False, False):
                        V("not-reflexive/" + what[0], "x==x -> %s" % (r[1],), what[1])
                    hz = safe(hash, z[1])
                    if hz[0] == "exc":
                        V("hash-raises-%s/%s" % (type(hz[1]).__name__, what[0]), repr(hz[1]), what[1])
                    cz = safe(copy.deepcopy, z[1])
                    if cz[0] == "ok":
                        r = eq_ops(z[1], cz[1])
                        if r[0] == "ok" and r[1] != (True, True, False, False):
                            V("deepcopy-not-equal/" + what[0], "x==deepcopy(x) -> %s" % (r[1],), what[1])
                        elif r[0] == "ok" and hz[0] == "ok":
                            h2 = safe(hash, cz[1])
                            if h2[0] == "ok" and h2[1] != hz[1]:
                                V("equal-but-hash-differs/" + what[0], "deepcopy", what[1])
        # L4d a custom state that stores a DERIVED quantity of a typed state (e.g. the heading of a point-mass state) in
        # place of one of the stored attributes: whatever the verdict, it is the same in both directions, and equal
        # objects hash equally
        if hasattr(x, "attributes") and hasattr(x, "time_step") and not use_defaults and type(x).__name__ != "CustomState":
            import commonroad.scenario.state as st_
            stored = list(x.attributes)
            derived = [n_ for n_ in dir(type(x)) if isinstance(getattr(type(x), n_, None), property)
                       and n_ not in stored and not n_.startswith("_")
                       and n_ not in ("attributes", "used_attributes", "is_uncertain_position", "is_uncertain_orientation")]
            for dn in derived:
                dv = safe(getattr, x, dn)
                if dv[0] != "ok" or dv[1] is None or isinstance(dv[1], (list, dict, set)):
                    continue
                for drop in [a_ for a_ in stored if a_ not in ("time_step", "position")][:2]:
                    kw_ = {a_: getattr(x, a_) for a_ in stored if a_ != drop}
                    kw_[dn] = dv[1]
                    cs = safe(lambda: st_.CustomState(**kw_))
                    if cs[0] != "ok":
                        continue
                    ctx.feature("law.derived-attribute-twin")
                    ctx.evaluation()
                    r = eq_ops(x, cs[1])
                    if r[0] == "exc":
                        V("eq-raises-%s" % type(r[1]).__name__, "typed state vs custom state storing %s" % dn)
                    elif r[1][0] != r[1][1]:
                        V("not-symmetric", "typed state vs custom state storing derived %s instead of %s: x==y %s, y==x %s"
                          % (dn, drop, r[1][0], r[1][1]), dn)
                    elif r[1][0] and h[0] == "ok":
                        h2 = safe(hash, cs[1])
                        if h2[0] == "ok" and h2[1] != h[1]:
                            V("equal-but-hash-differs", "custom-state-storing-derived-%s" % dn)
        # L5 single perturbations (populated instances only: for the all-defaults instance the harness does not know
        # which values differ from the constructor defaults, so only reflexivity / deepcopy / hash laws are judged)
        if use_defaults:
            # two objects built with the constructor defaults are two objects: filling the collections of one of them in
            # place (lists appended to, sets / dicts added to, through the public attributes) leaves the other one as it was
            y = safe(lambda: build(defaults=True)[0])
            ys = safe(copy.deepcopy, y[1]) if y[0] == "ok" else ("exc", None)
            if y[0] == "ok" and ys[0] == "ok":
                sentinel = 987654321
                touched = []
                for a_ in sorted(set(dir(type(x))) & set(dir(x))):
                    if a_.startswith("_") or not isinstance(getattr(type(x), a_, None), property):
                        continue
                    v_ = safe(getattr, x, a_)
                    if v_[0] != "ok":
                        continue
                    v_ = v_[1]
                    try:
                        if isinstance(v_, list):
                            v_.append(sentinel)
                        elif isinstance(v_, set):
                            v_.add(sentinel)
                        elif isinstance(v_, dict):
                            v_[sentinel] = sentinel
                        else:
                            continue
                    except Exception:  # noqa
                        continue
                    touched.append(a_)
                if touched:
                    ctx.evaluation()
                    ctx.feature("law.default-instances-share-nothing")
                    for a_ in touched:
                        w_ = safe(getattr, y[1], a_)
                        if w_[0] == "ok" and isinstance(w_[1], (list, set, dict)) and sentinel in w_[1]:
                            V("default-instances-share-a-collection", "an element added to %s of one default-constructed "
                              "object shows up in another default-constructed object" % a_, a_)
                    r = eq_ops(y[1], ys[1])
                    if r[0] == "ok" and r[1] != (True, True, False, False):
                        V("default-instance-changed-by-filling-another-one", "y==copy_of_y_before -> %s after %s of "
                          "another default-constructed object were filled" % (r[1], touched))
            continue
        # ... plus, for every collection-valued parameter that is populated, the variant with NOTHING in it (the first
        # element of a kind is a difference like any other -- whichever operand is on the left)
        perts_all = {p_: list(fns_) for p_, fns_ in perts.items()}
        for p_, v_ in kw.items():
            if isinstance(v_, (list, set, dict)) and len(v_) > 0:
                perts_all.setdefault(p_, []).append(lambda g, v, _t=type(v_): _t())
                ctx.feature("perturbation.emptied-collection")
        # ... and the two ways of saying "nothing": the parameter left at None and the parameter given as an empty
        # collection. Whether the two count as different is the class's business; if they compare equal they hash alike
        for p_, v_ in sorted(kw.items()):
            if not (isinstance(v_, (list, set, dict)) and len(v_) > 0):
                continue
            try:
                import inspect
                if inspect.signature(type(x).__init__).parameters[p_].default is not None:
                    continue  # None is not what the constructor documents for "not given"
            except (KeyError, ValueError, TypeError):
                continue
            ye = safe(lambda: build(pert=(p_, lambda g, v, _t=type(v_): _t()), defaults=use_defaults)[0])
            yn = safe(lambda: build(pert=(p_, lambda g, v: None), defaults=use_defaults)[0])
            if ye[0] != "ok" or yn[0] != "ok":
                continue
            ctx.evaluation()
            ctx.feature("law.none-vs-empty-twin")
            r = eq_ops(yn[1], ye[1])
            if r[0] == "exc":
                V("eq-raises-%s" % type(r[1]).__name__, "parameter %s: None vs empty" % p_, p_)
            elif r[1][0] != r[1][1]:
                V("not-symmetric", "parameter %s None vs empty: x==y %s, y==x %s" % (p_, r[1][0], r[1][1]), p_)
            elif r[1][0]:
                h1, h2 = safe(hash, yn[1]), safe(hash, ye[1])
                if h1[0] == "ok" and h2[0] == "ok" and h1[1] != h2[1]:
                    V("equal-but-hash-differs", "parameter %s: the object built with None equals the one built with an "
                      "empty collection, their hashes differ" % p_, "none-vs-empty:" + p_)
        for p, fns in sorted(perts_all.items()):
            fns = [f_ for fn in fns for f_ in ([fn, fn.first] if hasattr(fn, "first") else [fn])]
            for j, fn in enumerate(fns):
                if fn.__name__ == "f0" and isinstance(kw.get(p), (list, tuple)) and len(kw[p]) > 1:
                    ctx.feature("perturbation.member-other-than-the-last-changed")
                y = safe(lambda: build(pert=(p, fn), defaults=use_defaults)[0])
                if y[0] == "exc":
                    ctx.counter("perturbation-not-constructible")
                    continue
                ctx.evaluation()
                ctx.feature("law.perturbation")
                ctx.feature("law.symmetric")
                r = eq_ops(x, y[1])
                if r[0] == "exc":
                    V("eq-raises-%s" % type(r[1]).__name__, repr(r[1]), p)
                    continue
                a, b_, na, nb = r[1]
                if a != b_ or na != nb:
                    V("not-symmetric", "x==y %s, y==x %s" % (a, b_), p)
                elif a == na:
                    V("eq-and-ne-inconsistent", "x==y %s, x!=y %s" % (a, na), p)
                elif a:
                    V("perturbation-not-detected", "variant #%d of parameter %s compares equal" % (j, p), p)

    # ------------------------------------------------------------------ two spellings of the same instant
    # Time documents minutes 0..60 and hours 0..24: (h, 60) and (h + 1, 0) name the same instant. Whether the class treats
    # them as equal is its business; if it does, they hash alike -- also inside the objects that hold a Time
    from commonroad.common.util import Time
    from commonroad.scenario.scenario import Environment as _Env, Location as _Loc, TimeOfDay, Underground, Weather
    for idx, rng in ctx.cases("time-spellings", ctx.pick(24, 400)):
        h = idx % 24
        date = [(None, None, None), (1, 5, 2024), (28, 2, 2031)][idx % 3]
        a_, b_ = Time(h, 60, *date), Time(h + 1, 0, *date)
        holders = [("Time", a_, b_)]
        try:
            ea, eb = _Env(a_, TimeOfDay.NIGHT, Weather.SUNNY, Underground.DIRTY), _Env(b_, TimeOfDay.NIGHT, Weather.SUNNY,
                                                                                  Underground.DIRTY)
            holders += [("Environment", ea, eb), ("Location", _Loc(7, 1.5, 2.5, None, ea), _Loc(7, 1.5, 2.5, None, eb))]
        except Exception:  # noqa
            pass
        ctx.feature("law.two-spellings-of-an-instant")
        for nm_, x_, y_ in holders:
            ctx.evaluation()
            ctx.fingerprint(["time-spelling", nm_, h, date])
            r = eq_ops(x_, y_)
            if r[0] == "exc":
                ctx.violation("C12/%s/eq-raises-%s/minute-60" % (nm_, type(r[1]).__name__), repr(r[1]), {"hours": h})
            elif r[1][0] != r[1][1]:
                ctx.violation("C12/%s/not-symmetric/minute-60" % nm_, "x==y %s, y==x %s" % (r[1][0], r[1][1]), {"hours": h})
            elif r[1][0]:
                h1, h2 = safe(hash, x_), safe(hash, y_)
                if h1[0] == "ok" and h2[0] == "ok" and h1[1] != h2[1]:
                    ctx.violation("C12/%s/equal-but-hash-differs/minute-60" % nm_,
                                  "(%d, 60) == (%d, 0) but the hashes differ" % (h, h + 1), {"hours": h, "date": date})
