"""C17 — traffic-light state follows the cycle definition.

Reference model: a 5-line automaton.  Every evaluation uses a fresh cycle object (staleness is C11's business)."""
import itertools

CLAIM = True
RULE = ("quick: exhaustive over cycles of 1..3 elements x durations 1..3 x 3 colours x offsets 0..4 x t in -10..40; "
        "thorough: the same space with all 5 colours and durations 1..4, then random cycles (<=8 elements, durations "
        "<=500, offsets <=10^4, |t| <= 10^6). Each (cycle, offset) is one case; distinct = distinct (cycle, offset); all "
        "are non-trivial (every cycle has >=1 element). Per case the monitor also checks periodicity and "
        "TrafficLight/cycle agreement")
ANCHORS = ["TrafficLightCycle.get_state_at_time_step", "TrafficLight.get_state_at_time_step",
           "TrafficLightCycle.cycle_init_timesteps"]
REQUIRED = ["cycle.constructed-empty-then-filled-in-place", "single-element", "t<offset", "t-many-periods", "adjacent-same-colour", "light-agrees", "retimed.swap-durations", "retimed.shift-duration",
            "retimed.reverse-in-place", "retimed.time_offset", "retimed.append", "retimed.replace-cycle-of-light", "light.lamps-RYG",
            "light.first-colour-only", "light.inactive-flag", "numpy-int-time.uint8", "numpy-int-time.uint64",
            "numpy-int-time.int8", "numpy-int-definition.unsigned", "numpy-int-definition.signed",
            "cycle-with-more-than-8-elements"]
EXHAUSTIVE = {"quick": "cycles of 1..3 elements, durations 1..3, colours {RED,GREEN,YELLOW}, offsets 0..4, t in -10..40",
              "thorough": "cycles of 1..3 elements, durations 1..4, all 5 colours, offsets 0..4, t in -10..40 "
                          "(random part beyond is not exhaustive)"}
ASSUMPTIONS = ["time steps and durations are Python ints (numpy ints are sampled in the random part)"]
SHARDS = {"quick": 2, "thorough": 16}


def model(states_durs, offset, t):
    total = sum(d for _, d in states_durs)
    r = (t - offset) % total
    for s, d in states_durs:
        if r < d:
            return s
        r -= d
    raise AssertionError


def run(ctx):
    import numpy as np
    from commonroad.scenario.traffic_light import (TrafficLight, TrafficLightCycle, TrafficLightCycleElement,
                                                   TrafficLightDirection, TrafficLightState)
    S = TrafficLightState
    cols = [S.RED, S.GREEN, S.YELLOW] if ctx.quick else list(S)
    durs = [1, 2, 3] if ctx.quick else [1, 2, 3, 4]
    space = []
    for n in (1, 2, 3):
        for cs in itertools.product(cols, repeat=n):
            for ds in itertools.product(durs, repeat=n):
                space.append(tuple(zip(cs, ds)))
    offsets = range(0, 5)
    ts = list(range(-10, 41))

    light_variant = [0]
    fill_variant = [0]

    def check_case(sd, off, tlist, tag, K=int):
        """K: integer kind in which durations and offset are handed to the constructors (int or a numpy fixed-width kind)"""
        ctx.fingerprint([[s.name for s, _ in sd], [d for _, d in sd], off] + ([K.__name__] if K is not int else []))
        if len(sd) == 1:
            ctx.feature("single-element")
        if any(sd[i][0] == sd[i + 1][0] for i in range(len(sd) - 1)):
            ctx.feature("adjacent-same-colour")
        total = sum(d for _, d in sd)
        mk = lambda: TrafficLightCycle([TrafficLightCycleElement(s, K(d)) for s, d in sd], time_offset=K(off))  # noqa
        fill_variant[0] += 1
        if fill_variant[0] % 4 == 3:
            # the other way of defining a cycle: constructed without elements, the phases appended to its list afterwards
            def mk():
                c_ = TrafficLightCycle(time_offset=K(off)) if off else TrafficLightCycle()
                for s, d in sd:
                    c_.cycle_elements.append(TrafficLightCycleElement(s, K(d)))
                return c_
            ctx.feature("cycle.constructed-empty-then-filled-in-place")
        cyc = mk()
        # the light's own optional arguments (lamp colours, active flag, direction) do not enter the statement:
        # whatever they are, the light agrees with its cycle
        lv = light_variant[0] = (light_variant[0] + 1) % 6
        lkw = [{}, {"color": [S.RED, S.YELLOW, S.GREEN]}, {"color": [sd[0][0]]}, {"color": [s for s, _ in sd]},
               {"active": False}, {"color": [S.GREEN], "direction": TrafficLightDirection.LEFT_STRAIGHT}][lv]
        ctx.feature("light." + ["defaults", "lamps-RYG", "first-colour-only", "cycle-colours", "inactive-flag",
                                "green-lamp-and-direction"][lv])
        light = TrafficLight(7, np.array([0.0, 0.0]), mk(), **lkw)
        for t in tlist:
            ctx.evaluation()
            if int(t) < off:
                ctx.feature("t<offset")
            if abs(int(t) - off) > 5 * total:
                ctx.feature("t-many-periods")
            exp = model(sd, off, int(t))
            try:
                got = cyc.get_state_at_time_step(t)
            except Exception as e:  # noqa
                ctx.violation("C17/cycle.get_state_at_time_step/raises-%s" % type(e).__name__,
                              "cycle %s offset %d t=%r raised %r" % (sd, off, t, e), {"cycle": sd, "offset": off, "t": t})
                continue
            if got != exp:
                where = "t<offset" if int(t) < off else "boundary" if (int(t) - off) % total in _bounds(sd) else "inside"
                ctx.violation("C17/cycle.get_state_at_time_step/wrong-state/%s/%s" % (tag, where),
                              "cycle %s offset %d t=%r: got %s expected %s" % (sd, off, t, got, exp),
                              {"cycle": sd, "offset": off, "t": t})
            try:
                g2 = light.get_state_at_time_step(t)
                ctx.feature("light-agrees")
                if g2 != exp:
                    ctx.violation("C17/light.get_state_at_time_step/disagrees-with-cycle",
                                  "cycle %s offset %d t=%r: light %s expected %s" % (sd, off, t, g2, exp),
                                  {"cycle": sd, "offset": off, "t": t})
            except Exception as e:  # noqa
                ctx.violation("C17/light.get_state_at_time_step/raises-%s" % type(e).__name__, repr(e),
                              {"cycle": sd, "offset": off, "t": t})
            # periodicity observed on the real object (fresh object to stay independent of caches)
            try:
                g3 = mk().get_state_at_time_step(int(t) + total)
                if g3 != got:
                    ctx.violation("C17/cycle.get_state_at_time_step/not-periodic",
                                  "cycle %s offset %d: state(%r)=%s but state(%r)=%s" % (sd, off, t, got, int(t) + total, g3),
                                  {"cycle": sd, "offset": off, "t": t})
            except Exception:  # noqa  (already reported above)
                pass

    def _bounds(sd):
        acc, out = 0, {0}
        for _, d in sd:
            acc += d
            out.add(acc - 1)
            out.add(acc % sum(x for _, x in sd))
        return out

    for i, rng in ctx.cases("exhaustive", len(space)):
        sd = space[i]
        for off in offsets:
            check_case(sd, off, ts, "small")
        if i % 997 == 0:
            ctx.sample({"cycle": [(s.name, d) for s, d in sd], "offsets": "0..4", "t": "-10..40"})

    nrand = ctx.pick(300, 40000)
    for i, rng in ctx.cases("random", nrand):
        n = rng.randint(1, 8) if i % 4 else rng.choice([9, 10, 12, 16, 25])   # also long signal plans
        if n > 8:
            ctx.feature("cycle-with-more-than-8-elements")
        sd = tuple((rng.choice(list(S)), rng.choice([1, 1, 2, 3, rng.randint(1, 40), rng.randint(1, 500)]))
                   for _ in range(n))
        off = rng.choice([0, 1, rng.randint(0, 50), rng.randint(0, 10000)])
        total = sum(d for _, d in sd)
        tl = [off - 1, off, off + 1, off + total - 1, off + total, off + total + 1, -1, 0,
              off + 7 * total + rng.randint(0, total), off - 3 * total - 1]
        acc = off
        for _, d in sd:  # every phase boundary
            acc += d
            tl += [acc - 1, acc]
        tl += [rng.randint(-10 ** 6, 10 ** 6) for _ in range(6)]
        if rng.random() < 0.3:
            # integer time steps of numpy's fixed-width kinds (those that can represent the value)
            kinds = [np.int64, np.int32, np.int16, np.int8, np.uint8, np.uint16, np.uint32, np.uint64]
            K = kinds[i % len(kinds)]
            info = np.iinfo(K)
            tl = [K(t) if info.min <= t <= info.max else t for t in tl]
            ctx.feature("numpy-int-time")
            ctx.feature("numpy-int-time." + K.__name__)
        K = int
        if i % 5 == 2 and all(d <= 100 for _, d in sd) and off <= 100:
            # ... and cycles whose durations / offset are numpy integers (e.g. taken from an integer array)
            K = [np.int64, np.uint8, np.int32, np.uint32, np.int8, np.uint64, np.int16, np.uint16][(i // 5) % 8]
            ctx.feature("numpy-int-definition")
            ctx.feature("numpy-int-definition." + ("unsigned" if K.__name__.startswith("u") else "signed"))
        check_case(sd, off, tl, "random" if K is int else "numpy-int-definition", K)
        if i < 2:
            ctx.sample({"cycle": [(s.name, d) for s, d in sd], "offset": off, "t": [int(t) for t in tl[:12]]})

    # -------------------------------------------------------------------------------- re-timed cycles (same object)
    # "for every traffic-light cycle": also one that has already answered queries and was then re-timed in place.
    # After every edit the object answers for the elements / offset it has NOW.
    nre = ctx.pick(250, 20000)
    for i, rng in ctx.cases("retimed", nre):
        n = rng.randint(2, 5)
        sd = [(rng.choice(list(S)), rng.randint(1, 12)) for _ in range(n)]
        if len({c for c, _ in sd}) == 1:
            sd[0] = (S.RED if sd[1][0] != S.RED else S.GREEN, sd[0][1])
        off = rng.choice([0, 0, 3, rng.randint(0, 30)])
        cyc = TrafficLightCycle([TrafficLightCycleElement(c, d) for c, d in sd], time_offset=off)
        light = TrafficLight(9, np.array([1.0, 2.0]), cyc, **([{}, {"color": [S.RED, S.YELLOW, S.GREEN]},
                                                               {"color": [sd[0][0]]}][i % 3]))
        hist = []
        for step in range(rng.randint(2, 5)):
            total = sum(d for _, d in sd)
            tl = list(range(off - 2, off + 2 * total + 2)) + [off + 9 * total + rng.randint(0, total), -1 - rng.randint(0, 50)]
            for t in tl:
                ctx.evaluation()
                exp = model(tuple(sd), off, t)
                try:
                    got = (cyc.get_state_at_time_step(t), light.get_state_at_time_step(t))
                except Exception as e:  # noqa
                    ctx.violation("C17/retimed/raises-%s" % type(e).__name__, repr(e)[:200], {"history": hist})
                    break
                if got[0] != exp or got[1] != exp:
                    ctx.violation("C17/retimed/wrong-state-after/%s" % (hist[-1] if hist else "construction"),
                                  "cycle %s offset %d t=%d: cycle says %s, light says %s, expected %s (history %s)" % (
                                      [(c.name, d) for c, d in sd], off, t, got[0], got[1], exp, hist),
                                  {"history": hist, "cycle": [(c.name, d) for c, d in sd], "offset": off, "t": t})
                    break
            op = ["swap-durations", "shift-duration", "reverse-in-place", "setter-same-total", "change-one-duration",
                  "time_offset", "append", "pop", "recolour", "replace-cycle-of-light"][(i + step * 4) % 10]
            els = cyc.cycle_elements
            if op in ("swap-durations", "shift-duration") and len(sd) < 2:
                op = "append"
            if op == "swap-durations":
                a, b = rng.sample(range(len(sd)), 2)
                els[a].duration, els[b].duration = els[b].duration, els[a].duration
                sd[a], sd[b] = (sd[a][0], sd[b][1]), (sd[b][0], sd[a][1])
            elif op == "shift-duration":      # total unchanged
                a, b = rng.sample(range(len(sd)), 2)
                if sd[a][1] > 1:
                    els[a].duration -= 1
                    els[b].duration += 1
                    sd[a], sd[b] = (sd[a][0], sd[a][1] - 1), (sd[b][0], sd[b][1] + 1)
            elif op == "reverse-in-place":
                els.reverse()
                sd.reverse()
            elif op == "setter-same-total":
                sd = sd[1:] + sd[:1]
                cyc.cycle_elements = [TrafficLightCycleElement(c, d) for c, d in sd]
            elif op == "change-one-duration":
                a = rng.randrange(len(sd))
                d = rng.randint(1, 15)
                els[a].duration = d
                sd[a] = (sd[a][0], d)
            elif op == "time_offset":
                off = rng.randint(0, 25)
                cyc.time_offset = off
            elif op == "append":
                c, d = rng.choice(list(S)), rng.randint(1, 9)
                els.append(TrafficLightCycleElement(c, d))
                sd.append((c, d))
            elif op == "pop":
                if len(sd) > 1:
                    els.pop()
                    sd.pop()
            elif op == "replace-cycle-of-light":
                # the light gets ANOTHER cycle object (public setter): from now on it follows that one
                sd = [(rng.choice(list(S)), rng.randint(1, 9)) for _ in range(rng.randint(2, 4))]
                off = rng.randint(0, 12)
                cyc = TrafficLightCycle([TrafficLightCycleElement(c, d) for c, d in sd], time_offset=off)
                light.traffic_light_cycle = cyc
            else:
                a = rng.randrange(len(sd))
                c = rng.choice(list(S))
                els[a].state = c
                sd[a] = (c, sd[a][1])
            hist.append(op)
            ctx.feature("retimed." + op)
        ctx.fingerprint(["retimed", i, hist])
