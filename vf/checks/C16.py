"""C16 — Interval and AngleInterval behave as the closed sets they denote.

Oracle: exact rational set semantics (inputs are ints and dyadic floats, so Fraction arithmetic is exact) for Interval;
explicit search over k with a guard band for AngleInterval.  Every public operation is called on the real classes and
its return value / exception is compared with the oracle."""
import itertools
import math
from fractions import Fraction as F

RULE = ("exhaustive lattice of dyadic/int endpoints x query values x scalars for Interval (exact Fraction oracle); "
        "stratified + random AngleIntervals (lengths 0..2pi-eps, positions across +-pi/+-2pi) x angles given as "
        "int/float/numpy scalars, oracle = exists-k search with 1e-9 band; a case is distinct by its (operation, "
        "operands) tuple and non-trivial when the interval has positive length or the operation is a rejection test")
ANCHORS = ["Interval.contains", "Interval.overlaps", "Interval.intersection", "AngleInterval.__contains__",
           "AngleInterval.contains", "Interval.__truediv__", "Interval.__mul__", "Interval.__round__"]
REQUIRED = ["interval.contains", "interval.contains.next-to-a-bound", "interval.overlaps", "interval.intersection", "interval.mul.neg", "interval.div.neg",
            "interval.mul.zero", "interval.round", "interval.reject", "angle.reject", "angle.contains.float", "angle.contains.int",
            "angle.len>pi", "angle.wrap", "angle.shift", "angle.contains.interval", "angle.contains.numpy",
            "angle.many-turns-away", "interval.in-operator.interval", "rebound.start-lowered", "rebound.end-raised"]
ASSUMPTIONS = ["angles within 1e-9 of an interval end are not judged (skipped_band)",
               "float division/multiplication are IEEE correctly rounded, so the exact rational result rounded to "
               "double is the expected value"]
CLAIM = True
SHARDS = {"quick": 1, "thorough": 8}
TWO_PI = 2 * math.pi
BAND = 1e-9


def _exc(f, *a):
    try:
        return ("ok", f(*a))
    except BaseException as e:  # noqa
        return ("exc", e)


def run(ctx):
    import numpy as np
    from commonroad.common.util import AngleInterval, Interval

    # ------------------------------------------------------------------ plain intervals, exact
    ends = [-8, -3, -2.5, -1.0, -0.125, 0, 0.0, 0.125, 0.5, 1, 2, 2.5, 3.0, 7.75, 1048576.5]
    if not ctx.quick:
        ends += [-1048576.25, -0.0009765625, 0.0009765625, 5, 6.5, 100]
    vals = ends + [-9, 8, 0.25, -0.0625, 2.25]
    scal = [1, 2, 0.5, -1, -2, -0.5, 0, 3, -0.25]
    pairs = [(a, b) for a in ends for b in ends]

    def viol(key, msg, wit):
        ctx.violation("C16/" + key, msg, wit)

    for idx, rng in ctx.cases("interval", len(pairs)):
        a, b = pairs[idx]
        if F(a) > F(b):
            ctx.evaluation()
            ctx.feature("interval.reject")
            ctx.fingerprint(["reject", repr(a), repr(b)])
            r = _exc(Interval, a, b)
            if r[0] == "ok":
                viol("Interval.__init__/start>end-accepted", "Interval(%r,%r) accepted" % (a, b), [a, b])
            # the same for an angle interval (both ends inside [-2pi, 2pi], so nothing but the order can be objected to)
            if abs(F(a)) <= 6 and abs(F(b)) <= 6:
                ctx.feature("angle.reject")
                r = _exc(AngleInterval, a, b)
                if r[0] == "ok":
                    viol("AngleInterval.__init__/start>end-accepted", "AngleInterval(%r,%r) accepted" % (a, b), [a, b])
            continue
        r = _exc(Interval, a, b)
        if r[0] == "exc":
            viol("Interval.__init__/raises", "Interval(%r,%r) raised %r" % (a, b, r[1]), [a, b])
            continue
        iv = r[1]
        fa, fb = F(a), F(b)
        if idx < 3:
            ctx.sample({"op": "Interval", "start": a, "end": b})
        # membership: lattice values and values next to the bounds (one ulp / a few 2^-k relative steps outside and inside;
        # exact rational comparison decides them: "exactly when a <= x <= b")
        near = []
        for e_ in (float(a), float(b)):
            near += [math.nextafter(e_, -math.inf), math.nextafter(e_, math.inf)]
            for k_ in (45, 36, 31):
                step = max(abs(e_), 2.0 ** -20) * 2.0 ** -k_
                near += [e_ - step, e_ + step]
        ctx.feature("interval.contains.next-to-a-bound")
        for x in vals + near:
            ctx.evaluation(2)
            ctx.feature("interval.contains")
            ctx.fingerprint(["contains", repr(a), repr(b), repr(x)])
            exp = fa <= F(x) <= fb
            for nm, fn in (("contains", iv.contains), ("__contains__", iv.__contains__)):
                r = _exc(fn, x)
                if r[0] == "exc":
                    viol("Interval.%s/raises" % nm, "[%r,%r].%s(%r) raised %r" % (a, b, nm, x, r[1]), [a, b, x])
                elif bool(r[1]) != exp:
                    viol("Interval.%s/wrong" % nm, "[%r,%r].%s(%r)=%r expected %r" % (a, b, nm, x, r[1], exp),
                         [a, b, x])
        # interval-interval predicates on a sub-lattice (bounded cost)
        others = pairs if not ctx.quick else pairs[:: 3]
        for c, d in others:
            if F(c) > F(d):
                continue
            ov = Interval(c, d)
            fc, fd = F(c), F(d)
            ctx.evaluation(3)
            ctx.fingerprint(["ivops", repr(a), repr(b), repr(c), repr(d)])
            ctx.feature("interval.overlaps")
            ctx.feature("interval.intersection")
            exp_cont = fa <= fc and fd <= fb
            r = _exc(iv.contains, ov)
            if r[0] == "exc":
                viol("Interval.contains(Interval)/raises", "%r" % (r[1],), [a, b, c, d])
            elif bool(r[1]) != exp_cont:
                viol("Interval.contains(Interval)/wrong", "[%r,%r].contains([%r,%r])=%r" % (a, b, c, d, r[1]),
                     [a, b, c, d])
            # the operator form says the same
            r = _exc(lambda: ov in iv)
            ctx.feature("interval.in-operator.interval")
            if r[0] == "exc":
                viol("Interval.__contains__(Interval)/raises", "%r" % (r[1],), [a, b, c, d])
            elif bool(r[1]) != exp_cont:
                viol("Interval.__contains__(Interval)/wrong", "([%r,%r] in [%r,%r])=%r" % (c, d, a, b, r[1]), [a, b, c, d])
            lo, hi = max(fa, fc), min(fb, fd)
            exp_ov = lo <= hi
            r = _exc(iv.overlaps, ov)
            if r[0] == "exc":
                viol("Interval.overlaps/raises", "%r" % (r[1],), [a, b, c, d])
            elif bool(r[1]) != exp_ov:
                viol("Interval.overlaps/wrong", "[%r,%r].overlaps([%r,%r])=%r" % (a, b, c, d, r[1]), [a, b, c, d])
            r = _exc(iv.intersection, ov)
            if r[0] == "exc":
                viol("Interval.intersection/raises", "%r" % (r[1],), [a, b, c, d])
            elif exp_ov:
                res = r[1]
                if res is None or F(res.start) != lo or F(res.end) != hi:
                    viol("Interval.intersection/wrong", "[%r,%r]^[%r,%r]=%s" % (
                        a, b, c, d, None if res is None else (res.start, res.end)), [a, b, c, d])
            elif r[1] is not None:
                viol("Interval.intersection/nonempty-for-disjoint", "[%r,%r]^[%r,%r]=(%r,%r)" % (
                    a, b, c, d, r[1].start, r[1].end), [a, b, c, d])
        # arithmetic
        for s in scal:
            fs = F(s)
            for op, nm in ((lambda i, s: i + s, "add"), (lambda i, s: i - s, "sub"), (lambda i, s: i * s, "mul"),
                           (lambda i, s: i / s, "div")):
                if nm == "div" and s == 0:
                    continue
                ctx.evaluation()
                ctx.fingerprint([nm, repr(a), repr(b), repr(s)])
                if nm in ("mul", "div"):
                    ctx.feature("interval.%s.%s" % (nm, "neg" if s < 0 else "zero" if s == 0 else "pos"))
                if nm == "add":
                    e0, e1 = fa + fs, fb + fs
                elif nm == "sub":
                    e0, e1 = fa - fs, fb - fs
                elif nm == "mul":
                    e0, e1 = sorted((fa * fs, fb * fs))
                else:
                    e0, e1 = sorted((fa / fs, fb / fs))
                r = _exc(op, iv, s)
                if r[0] == "exc":
                    viol("Interval.%s/raises" % nm, "[%r,%r] %s %r raised %r" % (a, b, nm, s, r[1]), [a, b, s])
                    continue
                res = r[1]
                if not (hasattr(res, "start") and hasattr(res, "end")):
                    viol("Interval.%s/result-is-not-an-interval" % nm, "[%r,%r] %s %r = %r" % (a, b, nm, s, res),
                         [a, b, s])
                elif not (res.start <= res.end):
                    viol("Interval.%s/start>end" % nm, "[%r,%r] %s %r = (%r,%r)" % (a, b, nm, s, res.start, res.end),
                         [a, b, s])
                elif float(res.start) != float(e0) or float(res.end) != float(e1):
                    viol("Interval.%s/wrong-image" % nm, "[%r,%r] %s %r = (%r,%r) expected (%s,%s)" % (
                        a, b, nm, s, res.start, res.end, float(e0), float(e1)), [a, b, s])
        for n in (None, 0, 1, 3):
            ctx.evaluation()
            ctx.feature("interval.round")
            ctx.fingerprint(["round", repr(a), repr(b), n])
            r = _exc(round, iv, n) if n is not None else _exc(round, iv)
            if r[0] == "exc":
                viol("Interval.__round__/raises", "round([%r,%r],%r) raised %r" % (a, b, n, r[1]), [a, b, n])
            else:
                res = r[1]
                if not (hasattr(res, "start") and hasattr(res, "end")):
                    viol("Interval.__round__/result-is-not-an-interval", "round([%r,%r],%r)=%r" % (a, b, n, res),
                         [a, b, n])
                    continue
                e0 = round(a, n) if n is not None else round(a)
                e1 = round(b, n) if n is not None else round(b)
                if res.start != e0 or res.end != e1 or not res.start <= res.end:
                    viol("Interval.__round__/wrong", "round([%r,%r],%r)=(%r,%r)" % (a, b, n, res.start, res.end),
                         [a, b, n])

    # ------------------------------------------------------------------ angle intervals
    def member(th, a, b):
        """True / False / None(band)"""
        near = False
        for k in range(-40, 41):
            v = th + TWO_PI * k
            if a + BAND <= v <= b - BAND:
                return True
            if a - BAND <= v <= b + BAND:
                near = True
        return None if near else False

    eps = 1e-6
    lengths = [0.0, 1e-3, 0.5, 1.0, math.pi / 2, math.pi - eps, math.pi, math.pi + eps, 3.5, 4.0, 5.0, 6.0,
               TWO_PI - 1e-3, TWO_PI - eps, 1, 2, 3, 4, 6]
    starts = [-TWO_PI, -TWO_PI + eps, -5.0, -math.pi - 0.3, -math.pi, -3.0, -1.0, -eps, 0.0, 0, 0.25, 1, 2.0, 3.0,
              math.pi - 0.2, math.pi, 4.0, 5.5, -6, -2]
    base = [(s, s + ln) for s in starts for ln in lengths if s + ln <= TWO_PI]
    nrand = ctx.pick(3000, 150000)
    for idx, rng in ctx.cases("angle", len(base) + nrand):
        if idx < len(base):
            a, b = base[idx]
        else:
            ln = rng.choice([rng.uniform(0, TWO_PI - 1e-6), rng.uniform(math.pi - 0.01, math.pi + 0.01),
                             rng.uniform(0, 0.1), rng.uniform(6.2, TWO_PI - 1e-6)])
            a = rng.uniform(-TWO_PI, TWO_PI - ln)
            b = a + ln
            if b > TWO_PI:
                b = TWO_PI
        ln = b - a
        if not (0 <= ln < TWO_PI):
            continue
        r = _exc(AngleInterval, a, b)
        ctx.evaluation()
        if r[0] == "exc":
            viol("AngleInterval.__init__/raises", "AngleInterval(%r,%r) raised %r" % (a, b, r[1]), [a, b])
            continue
        iv = r[1]
        if not (abs((iv.end - iv.start) - ln) < 1e-9 and -TWO_PI - 1e-12 <= iv.start <= iv.end <= TWO_PI + 1e-12
                and abs(math.remainder(iv.start - a, TWO_PI)) < 1e-9):
            viol("AngleInterval.__init__/wrong-normalisation", "AngleInterval(%r,%r) -> (%r,%r)" % (
                a, b, iv.start, iv.end), [a, b])
            continue
        if ln > math.pi:
            ctx.feature("angle.len>pi")
        if a < -math.pi < b or a < math.pi < b:
            ctx.feature("angle.wrap")
        if idx in (5, 40, len(base) + 1):
            ctx.sample({"op": "AngleInterval", "start": a, "end": b, "length": ln})
        # query angles: ends, just in/outside, shifted by 2pi k, ints, random
        t = 1e-6
        qs = [a + ln / 2, a - 0.01, b + 0.01, a - t, b + t, a + ln / 2 + TWO_PI, a + ln / 2 - TWO_PI,
              (a + b) / 2 + math.pi, a - t + TWO_PI, b + t - TWO_PI]
        if ln > 3 * t:
            qs += [a + t, b - t, a + t + TWO_PI, b - t - TWO_PI]
        if ln > 0.03:
            qs += [a + 0.01, b - 0.01]
        if idx % 7 == 0:
            qs += [a, b]  # exactly on the ends: always inside the guard band, recorded as skipped
        qs += [rng.uniform(-TWO_PI, TWO_PI) for _ in range(4)]
        # representatives many turns away ("th + 2pi*k for SOME integer k"): inside and outside, up to +-30 turns
        far = []
        for kk in (2, 3, 5, -2, -3, -4, -7, rng.randint(8, 30), -rng.randint(8, 30)):
            far += [a + ln * rng.uniform(0.05, 0.95) + TWO_PI * kk, b + (TWO_PI - ln) * rng.uniform(0.05, 0.95) + TWO_PI * kk]
        if ln > 1e-3 and TWO_PI - ln > 1e-3:
            qs += far
            ctx.feature("angle.many-turns-away")
        ints = [-6, -3, -1, 0, 1, 2, 3, 4, 6, -13, 13, -20, 25, -100, 100]
        for q in qs + ints:
            if not (-TWO_PI * 35 <= q <= TWO_PI * 35):
                continue
            exp = member(q, a, b)
            variants = [("float" if isinstance(q, float) else "int", q)]
            if isinstance(q, float) and rng.random() < 0.3:
                variants.append(("numpy", np.float64(q)))
            if isinstance(q, int) and rng.random() < 0.3:
                variants.append(("numpy", np.int64(q)))
            for kind, qq in variants:
                ctx.evaluation(2)
                ctx.feature("angle.contains." + kind)
                ctx.fingerprint(["acont", repr(a), repr(b), repr(q), kind])
                if exp is None:
                    ctx.skipped(2)
                    continue
                for nm, fn in (("contains", iv.contains), ("__contains__", iv.__contains__)):
                    r = _exc(fn, qq)
                    cls = ("len>pi" if ln > math.pi else "len<=pi") + "/" + kind
                    if r[0] == "exc":
                        viol("AngleInterval.%s/raises-%s/%s" % (nm, type(r[1]).__name__, cls),
                             "[%r,%r].%s(%r) raised %r" % (a, b, nm, qq, r[1]), [a, b, q, kind])
                    elif bool(r[1]) != exp:
                        viol("AngleInterval.%s/wrong/%s" % (nm, cls),
                             "[%r,%r].%s(%r)=%r expected %r" % (a, b, nm, qq, r[1], exp), [a, b, q, kind])
        # containment of angle intervals: decided on sampled points of the inner interval
        for _ in range(3):
            c = rng.uniform(-TWO_PI, TWO_PI - 0.01)
            d = min(TWO_PI, c + rng.choice([0.0, rng.uniform(0, 1.0), rng.uniform(0, TWO_PI - 1e-3)]))
            if rng.random() < 0.4 and ln > 0.01:  # definitely inside (possibly shifted by 2pi)
                c = a + rng.uniform(0.001, ln / 2)
                d = c + rng.uniform(0, max(0.0, b - c - 0.001))
                sh = rng.choice([0, 0, TWO_PI, -TWO_PI])
                if -TWO_PI <= c + sh and d + sh <= TWO_PI:
                    c, d = c + sh, d + sh
            if d - c >= TWO_PI or d < c:
                continue
            inner = _exc(AngleInterval, c, d)
            if inner[0] == "exc":
                continue
            pts = [c + (d - c) * j / 16 for j in range(17)]
            ms = [member(p, a, b) for p in pts]
            ctx.evaluation()
            ctx.feature("angle.contains.interval")
            ctx.fingerprint(["aint", repr(a), repr(b), repr(c), repr(d)])
            if any(m is None for m in ms):
                ctx.skipped()
                continue
            if all(ms):
                # all sampled points inside; with len(inner) small relative to sampling this means contained, except
                # when the inner interval passes over a gap narrower than its sampling step -> require gap > step
                gap = TWO_PI - ln
                if (d - c) / 16 >= gap:
                    ctx.skipped()
                    continue
                exp = True
            else:
                exp = False
            r = _exc(iv.contains, inner[1])
            cls = "len>pi" if ln > math.pi else "len<=pi"
            if r[0] == "exc":
                viol("AngleInterval.contains(AngleInterval)/raises-%s/%s" % (type(r[1]).__name__, cls),
                     "[%r,%r].contains([%r,%r]) raised %r" % (a, b, c, d, r[1]), [a, b, c, d])
            elif bool(r[1]) != exp:
                viol("AngleInterval.contains(AngleInterval)/wrong/%s" % cls,
                     "[%r,%r].contains([%r,%r])=%r expected %r" % (a, b, c, d, r[1], exp), [a, b, c, d])
        # shifting
        for s in (0.5, -0.5, 1, -2, math.pi, -math.pi, 4.0, -4.0):
            ctx.evaluation()
            ctx.feature("angle.shift")
            ctx.fingerprint(["ashift", repr(a), repr(b), repr(s)])
            for nm, op in (("add", lambda i, s: i + s), ("sub", lambda i, s: i - s)):
                r = _exc(op, iv, s)
                sgn = s if nm == "add" else -s
                if r[0] == "exc":
                    viol("AngleInterval.%s/raises-%s" % (nm, type(r[1]).__name__),
                         "[%r,%r] %s %r raised %r" % (a, b, nm, s, r[1]), [a, b, s])
                    continue
                res = r[1]
                if not (hasattr(res, "start") and hasattr(res, "end")):
                    viol("AngleInterval.%s/result-is-not-an-interval" % nm, "[%r,%r] %s %r = %r" % (a, b, nm, s, res),
                         [a, b, s])
                    continue
                ok = (res.start <= res.end and abs((res.end - res.start) - ln) < 1e-9
                      and abs(math.remainder(res.start - (a + sgn), TWO_PI)) < 1e-9
                      and -TWO_PI - 1e-12 <= res.start and res.end <= TWO_PI + 1e-12)
                if not ok:
                    viol("AngleInterval.%s/wrong-image" % nm, "[%r,%r] %s %r = (%r,%r)" % (
                        a, b, nm, s, res.start, res.end), [a, b, s])

    # ----------------------------------------------------------------------- intervals whose bounds were re-assigned
    # "x is contained in Interval [a, b]": a and b are the bounds the interval has NOW. The same object answers a battery
    # of queries (also .length, so that anything the object memorises has been computed), gets a bound re-assigned through
    # the public setters, and answers again.
    grid = [-8.0, -3.0, -1.5, -0.5, 0.0, 0.25, 1.0, 2.0, 3.5, 7.0]
    n = ctx.pick(300, 20000)
    for idx, rng in ctx.cases("rebound", n):
        a, b = sorted(rng.sample(grid, 2))
        iv = Interval(a, b)
        hist = []
        for step in range(rng.randint(2, 5)):
            qs = [(c, d) for c in grid for d in grid if c <= d]
            rng.shuffle(qs)
            _ = iv.length
            for c, d in qs[:12]:
                ctx.evaluation(3)
                other = Interval(c, d)
                exp = (a <= c and d <= b, not (d < a or b < c))
                r1, r2 = _exc(iv.contains, other), _exc(iv.overlaps, other)
                x = rng.choice(grid) + rng.choice([0.0, 0.125])
                r3 = _exc(iv.contains, x)
                if r1[0] == "exc" or r2[0] == "exc" or r3[0] == "exc":
                    viol("Interval/rebound/raises", "after %s: %r %r %r" % (hist, r1, r2, r3), [a, b, c, d, hist])
                    break
                if bool(r1[1]) != exp[0]:
                    viol("Interval.contains(Interval)/wrong-after-%s" % (hist[-1] if hist else "construction"),
                         "[%r,%r] (history %s).contains([%r,%r])=%r" % (a, b, hist, c, d, r1[1]), [a, b, c, d, hist])
                if bool(r2[1]) != exp[1]:
                    viol("Interval.overlaps/wrong-after-%s" % (hist[-1] if hist else "construction"),
                         "[%r,%r] (history %s).overlaps([%r,%r])=%r" % (a, b, hist, c, d, r2[1]), [a, b, c, d, hist])
                if bool(r3[1]) != (a <= x <= b):
                    viol("Interval.contains/wrong-after-%s" % (hist[-1] if hist else "construction"),
                         "[%r,%r] (history %s).contains(%r)=%r" % (a, b, hist, x, r3[1]), [a, b, x, hist])
                if abs(float(iv.length) - (b - a)) > 1e-12:
                    viol("Interval.length/wrong-after-%s" % (hist[-1] if hist else "construction"),
                         "[%r,%r] (history %s).length=%r" % (a, b, hist, iv.length), [a, b, hist])
            # re-assign one bound (keeping start <= end)
            which = rng.choice(["start-lowered", "start-raised", "end-lowered", "end-raised"])
            if which == "start-lowered":
                cand = [g for g in grid if g < a]
            elif which == "start-raised":
                cand = [g for g in grid if a < g <= b]
            elif which == "end-lowered":
                cand = [g for g in grid if a <= g < b]
            else:
                cand = [g for g in grid if g > b]
            if not cand:
                continue
            v = rng.choice(cand)
            try:
                if which.startswith("start"):
                    iv.start = v
                    a = v
                else:
                    iv.end = v
                    b = v
            except Exception as e:  # noqa
                viol("Interval/rebound/setter-raises-%s" % type(e).__name__, "%s=%r on [%r,%r]: %r" % (which, v, a, b, e),
                     [a, b, which, v])
                break
            hist.append(which)
            ctx.feature("rebound." + which)
        ctx.fingerprint(["rebound", idx, hist])
