"""C07 — obstacle-lanelet assignment is geometrically correct and invertible.

Invariant walker after every step of add / assign / remove histories on lattice scenarios:
 INV-R (always)  each lanelet's registry of static and per-time-step dynamic obstacles == inverse of the shape
                 assignment recorded on the obstacles currently contained;
 INV-G (after an assignment covering (obstacle, t), or after reading a file with lanelet assignment)
                 recorded centre set == lanelets containing the centre, recorded shape set == lanelets the
                 occupancy intersects (truth from vf.oracle.geom applied to the placement oracle's occupancy).
Every call is recorded; an exception from remove_obstacle / assign_obstacles_to_lanelets is a violation."""
import copy
import math
import warnings

CLAIM = True
RULE = ("lattice networks (2..6 lanelets, adjacent/overlapping/nested) + static obstacles and dynamic obstacles with a "
        "trajectory prediction or none, exact states, shapes rectangle (aligned and rotated) / circle / polygon / "
        "shape group, placed inside, straddling a boundary (centre lanelets strictly inside shape lanelets), and "
        "outside; histories over {add, assign all | ids | time steps | centre-only, remove single | list, re-add, "
        "re-assign}: exhaustive up to length 2 (quick) / 3 (thorough) over a 2-obstacle universe, random up to length "
        "14; second route: XML / protobuf write then open(lanelet_assignment=True). distinct = (scenario fingerprint, "
        "history); non-trivial = history contains an assignment")
ANCHORS = ["Scenario.assign_obstacles_to_lanelets", "Scenario._add_static_obstacle_to_lanelets",
           "Scenario._remove_static_obstacle_from_lanelets", "Scenario._add_dynamic_obstacle_to_lanelets",
           "Scenario._remove_dynamic_obstacle_from_lanelets", "Scenario.remove_obstacle",
           "Lanelet.add_dynamic_obstacle_to_lanelet", "Lanelet.add_static_obstacle_to_lanelet",
           "DynamicObstacleFactory.find_obstacle_shape_lanelets", "LaneletNetwork.find_lanelet_by_shape"]
REQUIRED = ["re-add-after-a-lanelet-of-the-obstacle-was-removed", "scenario-without-lanelets", "file-with-separate-predicted-footprint", "prediction-records-the-initial-step", "predicted-footprint-differs-from-obstacle-shape", "op.add", "op.assign-all", "op.assign-ids", "op.assign-times", "op.assign-center-only", "op.remove",
            "op.remove-list", "op.re-add", "route.xml", "route.protobuf", "shape.Rectangle", "shape.Circle",
            "shape.Polygon", "shape.ShapeGroup", "obstacle.static", "obstacle.dynamic-trajectory", "obstacle.dynamic-none",
            "straddling(centre-lanelets<shape-lanelets)", "inv-g-checked", "inv-r-checked", "op.move",
            "centre-on-a-lanelet-the-occupancy-does-not-touch", "scripted-history", "op.shorten-prediction", "op.shorten-trajectory",
            "dynamic-obstacle-entering-after-step-0", "turning-on-the-spot", "c-shaped-body.static",
            "c-shaped-body.dynamic"]
EXHAUSTIVE = {"quick": "all histories of length <= 2 over the 10-operation alphabet on a fixed 2-obstacle universe",
              "thorough": "all histories of length <= 3 over the 10-operation alphabet on a fixed 2-obstacle universe"}
ASSUMPTIONS = ["set-based predictions are outside the quantifier", "obstacles are added after the network exists",
               "after a centre-only assignment INV-R is not judged for that obstacle (registries then hold centre "
               "lanelets by design)", "verdicts within 1e-9 of a lanelet boundary are judged only on the lattice"]
SHARDS = {"quick": 4, "thorough": 16}


def gen_obstacle(rng, oid, lanelets, kind=None, shape_kind=None, t0=None):
    import numpy as np
    from commonroad.geometry.shape import Circle, Polygon, Rectangle, ShapeGroup
    from commonroad.prediction.prediction import TrajectoryPrediction
    from commonroad.scenario.obstacle import DynamicObstacle, ObstacleType, StaticObstacle
    from commonroad.scenario.state import InitialState, KSState
    from commonroad.scenario.trajectory import Trajectory
    from vf.gen import lattice
    kind = kind or rng.choice(["static", "dynamic-trajectory", "dynamic-none"])
    sk = shape_kind or rng.choice(["Rectangle", "Rectangle", "Circle", "Polygon", "ShapeGroup"])
    if sk == "Rectangle":
        shape = Rectangle(rng.choice([1.0, 2.0, 4.5]), rng.choice([0.5, 1.0, 2.0]))
    elif sk == "Circle":
        shape = Circle(rng.choice([0.5, 1.0, 2.0]))
    elif sk == "Polygon":
        shape = Polygon(np.array([[-1.0, -0.5], [1.0, -0.5], [1.0, 0.5], [-1.0, 0.5]]) * rng.choice([1.0, 2.0]))
        if rng.random() < 0.4:
            # the body does not cover its own reference point (e.g. a load carried beside the vehicle): the centre may lie
            # on a lanelet that the occupancy does not touch
            shape = Polygon(np.array([[-1.0, 3.0], [1.0, 3.0], [1.0, 4.5], [-1.0, 4.5]]))
    else:
        shape = ShapeGroup([Rectangle(2.0, 1.0), Circle(0.5, np.array([2.0, 0.0]))])
        if rng.random() < 0.4:
            shape = ShapeGroup([Rectangle(2.0, 1.0, np.array([0.0, 4.0])), Rectangle(2.0, 1.0, np.array([0.0, -4.0]))])

    def place():
        la = rng.choice(lanelets)
        k = rng.randrange(len(la.center_vertices))
        c = la.center_vertices[k]
        mode = rng.choice(["inside", "straddle", "outside", "vertex"])
        if mode == "inside":
            p = c
        elif mode == "straddle":
            b = la.left_vertices[k] if rng.random() < 0.5 else la.right_vertices[k]
            p = b + (c - b) * rng.choice([0.125, 0.25])  # close to a boundary: the shape sticks out
        elif mode == "vertex":
            p = la.right_vertices[k]
        else:
            p = c + np.array([lattice.q(rng, 6, 9), lattice.q(rng, 30, 40)])
        th = rng.choice([0.0, 0.0, 0.0, rng.uniform(-3, 3)])
        return np.array([float(p[0]), float(p[1])]), th
    p0, th0 = place()
    if kind == "static":
        init = InitialState(time_step=0, position=p0, orientation=th0, velocity=1.0)
        return StaticObstacle(oid, ObstacleType.PARKED_VEHICLE, shape, init), kind, sk
    # dynamic obstacles may enter the scene later than time step 0
    t0 = rng.choice([0, 0, 0, 2]) if t0 is None else t0
    init = InitialState(time_step=t0, position=p0, orientation=th0, velocity=1.0)
    pred = None
    if kind == "dynamic-trajectory":
        states = []
        prev = p0
        for t in range(t0 + 1, t0 + rng.randint(2, 6)):
            p, th = place()
            if rng.random() < 0.35:  # standing still while turning: same position, another orientation
                p, th = prev.copy(), rng.choice([math.pi / 2, rng.uniform(-3, 3), 0.0])
            prev = p
            states.append(KSState(time_step=t, position=p, orientation=th, velocity=1.0, steering_angle=0.0))
        pshape = shape
        if sk == "Rectangle" and oid % 3 != 0:
            # the predicted footprint is inflated (safety margin): from the first predicted step on the occupancy is THIS
            # shape placed at the state, at the initial step it is the obstacle's own shape
            pshape = Rectangle(shape.length + 4.0, shape.width + 3.0)
        pred = TrajectoryPrediction(Trajectory(t0 + 1, states), pshape)
    return DynamicObstacle(oid, ObstacleType.CAR, shape, init, pred), kind, sk


def truth(net, ob, t):
    """(centre lanelets (must, maybe), shape lanelets (must, maybe)) for obstacle ob at time t"""
    import numpy as np
    from vf.monitors import lookup
    from vf.oracle import geom, placement
    st = ob.initial_state if t == ob.initial_state.time_step else next(
        s for s in ob.prediction.trajectory.state_list if s.time_step == t)
    shape = ob.obstacle_shape if t == ob.initial_state.time_step or not hasattr(ob, "prediction") or \
        ob.prediction is None else ob.prediction.shape
    pos = (float(st.position[0]), float(st.position[1]))
    d = placement.place_desc(placement.params(shape), pos, float(st.orientation))
    lat_pt = lookup.is_lattice_num(pos[0]) and lookup.is_lattice_num(pos[1])
    lat_shape = float(st.orientation) == 0.0 and type(shape).__name__ in ("Rectangle", "Polygon") and lat_pt
    cm, cu, sm, su = set(), set(), set(), set()
    for la in net.lanelets:
        ring = geom.lanelet_ring(la)
        v = geom.point_in_ring(pos, ring, exact=lat_pt)
        (cm if v is True else cu if v is None else set()).add(la.lanelet_id)
        w = geom.desc_ring_relation(d, ring, exact=lat_shape)
        (sm if w is True else su if w is None else set()).add(la.lanelet_id)
    half = None
    if geom.has_circle(d):
        # the halved-radius reading of the known Circle.shapely_object defect: (must, undecided-in-band)
        half = (set(), set())
        dh = geom.desc_halved(d)
        for la in net.lanelets:
            w = geom.desc_ring_relation(dh, geom.lanelet_ring(la))
            if w is not False:
                half[0 if w is True else 1].add(la.lanelet_id)
    return cm, cu, sm, su, half


def run(ctx):
    warnings.simplefilter("ignore")
    import numpy as np
    from commonroad.scenario.obstacle import DynamicObstacle, StaticObstacle
    from commonroad.scenario.scenario import Scenario, ScenarioID, Tag
    from vf import io
    from vf.gen import lattice

    def horizon(ob):
        if isinstance(ob, StaticObstacle) or ob.prediction is None:
            return [ob.initial_state.time_step]
        return [ob.initial_state.time_step] + [s.time_step for s in ob.prediction.trajectory.state_list]

    def recorded(ob, t, what):
        """recorded centre / shape lanelet set of ob at t, or None if nothing recorded"""
        if t == ob.initial_state.time_step:
            return ob.initial_center_lanelet_ids if what == "center" else ob.initial_shape_lanelet_ids
        a = ob.prediction.center_lanelet_assignment if what == "center" else ob.prediction.shape_lanelet_assignment
        if a is None:
            return None
        return a.get(t)

    def check(sc, assigned, center_only, wit, opname):
        net = sc.lanelet_network
        # ---- INV-G
        for (oid, t, mode) in sorted(assigned):
            ob = sc.obstacle_by_id(oid)
            if ob is None or t not in horizon(ob):
                continue
            ctx.evaluation()
            ctx.feature("inv-g-checked")
            cm, cu, sm, su, half = truth(net, ob, t)
            if t != ob.initial_state.time_step and getattr(ob, "prediction", None) is not None and \
                    ob.prediction.shape is not ob.obstacle_shape and mode != "center":
                ctx.feature("predicted-footprint-differs-from-obstacle-shape")
            if len(cm) < len(sm):
                ctx.feature("straddling(centre-lanelets<shape-lanelets)")
            if cm - sm - su:
                ctx.feature("centre-on-a-lanelet-the-occupancy-does-not-touch")
            rc = recorded(ob, t, "center")
            role = "static" if isinstance(ob, StaticObstacle) else "dynamic"
            sk = type(ob.obstacle_shape).__name__
            if rc is None or not (cm <= set(rc) <= cm | cu):
                ctx.violation("C07/%s/recorded-center-lanelets-wrong/%s" % (opname, role),
                              "obstacle %d t=%d: recorded %s, geometry says %s (+undecided %s)" % (
                                  oid, t, None if rc is None else sorted(rc), sorted(cm), sorted(cu)), wit)
            if mode == "shape":
                rs = recorded(ob, t, "shape")
                if rs is None or not (sm <= set(rs) <= sm | su):
                    if half is not None and rs is not None and half[0] <= set(rs) | su and set(rs) <= half[0] | half[1] | su:
                        ctx.violation("C07/recorded-shape-lanelets-wrong/as-if-circle-radius-halved",
                                      "obstacle %d t=%d: recorded %s, geometry says %s" % (oid, t, sorted(rs), sorted(sm)),
                                      wit)
                    else:
                        ctx.violation("C07/%s/recorded-shape-lanelets-wrong/%s/%s" % (opname, role, sk),
                                      "obstacle %d t=%d: recorded %s, geometry says %s (+undecided %s)" % (
                                          oid, t, None if rs is None else sorted(rs), sorted(sm), sorted(su)), wit)
                # the prediction's own record may list the initial step as well: it speaks of the same occupancy
                pa = getattr(getattr(ob, "prediction", None), "shape_lanelet_assignment", None)
                if t == ob.initial_state.time_step and pa and t in pa:
                    ctx.feature("prediction-records-the-initial-step")
                    ps_ = set(pa[t])
                    if not (sm <= ps_ <= sm | su) and not (
                            half is not None and half[0] <= ps_ | su and ps_ <= half[0] | half[1] | su):
                        ctx.violation("C07/%s/prediction-record-of-the-initial-step-wrong/%s" % (opname, sk),
                                      "obstacle %d t=%d: prediction records %s, geometry says %s (+undecided %s)" % (
                                          oid, t, sorted(ps_), sorted(sm), sorted(su)), wit)
        # ---- INV-R
        ctx.feature("inv-r-checked")
        exp_static = {la.lanelet_id: set() for la in net.lanelets}
        exp_dyn = {la.lanelet_id: {} for la in net.lanelets}
        for ob in sc.static_obstacles:
            if ob.obstacle_id in center_only:
                continue
            for l in (ob.initial_shape_lanelet_ids or ()):
                if l in exp_static:
                    exp_static[l].add(ob.obstacle_id)
        for ob in sc.dynamic_obstacles:
            if ob.obstacle_id in center_only:
                continue
            for l in (ob.initial_shape_lanelet_ids or ()):
                if l in exp_dyn:
                    exp_dyn[l].setdefault(ob.initial_state.time_step, set()).add(ob.obstacle_id)
            if ob.prediction is not None and ob.prediction.shape_lanelet_assignment:
                for t, ls in ob.prediction.shape_lanelet_assignment.items():
                    for l in ls:
                        if l in exp_dyn:
                            exp_dyn[l].setdefault(t, set()).add(ob.obstacle_id)
        contained = {o.obstacle_id for o in sc.obstacles}
        # whatever was recorded or not: an obstacle that is no longer in the scenario is on no lanelet's registry
        for la in net.lanelets:
            left = (set(la.static_obstacles_on_lanelet) | set().union(*la.dynamic_obstacles_on_lanelet.values())
                    if la.dynamic_obstacles_on_lanelet else set(la.static_obstacles_on_lanelet)) - contained
            if left:
                ctx.violation("C07/%s/registry-lists-an-obstacle-that-is-not-in-the-scenario" % opname,
                              "lanelet %d still lists %s (contained: %s)" % (la.lanelet_id, sorted(left), sorted(contained)), wit)
                break
        for la in net.lanelets:
            gs = {x for x in la.static_obstacles_on_lanelet if x not in center_only}
            if gs != exp_static[la.lanelet_id]:
                stale = gs - contained
                ctx.violation("C07/%s/static-registry-not-inverse-of-shape-assignment%s" % (
                    opname, "/removed-obstacle-left-behind" if stale else ""),
                    "lanelet %d registry %s, inverse of assignments %s" % (
                        la.lanelet_id, sorted(gs), sorted(exp_static[la.lanelet_id])), wit)
            # the per-time-step query of the registry answers what the registry holds (and the empty set elsewhere)
            for t_ in sorted(set(la.dynamic_obstacles_on_lanelet) | {-1, 0, 1, 99}):
                q_ = la.dynamic_obstacle_by_time_step(t_)
                if set(q_) != set(la.dynamic_obstacles_on_lanelet.get(t_) or ()):
                    ctx.violation("C07/%s/dynamic_obstacle_by_time_step-differs-from-registry" % opname,
                                  "lanelet %d t=%d: %s vs %s" % (la.lanelet_id, t_, sorted(q_), sorted(
                                      la.dynamic_obstacles_on_lanelet.get(t_) or ())), wit)
                    break
            gd = {t: {x for x in v if x not in center_only} for t, v in la.dynamic_obstacles_on_lanelet.items()}
            gd = {t: v for t, v in gd.items() if v}
            ed = {t: v for t, v in exp_dyn[la.lanelet_id].items() if v}
            if gd != ed:
                stale = set().union(*gd.values()) - contained if gd else set()
                ctx.violation("C07/%s/dynamic-registry-not-inverse-of-shape-assignment%s" % (
                    opname, "/removed-obstacle-left-behind" if stale else ""),
                    "lanelet %d registry %s, inverse of assignments %s" % (
                        la.lanelet_id, {t: sorted(v) for t, v in gd.items()}, {t: sorted(v) for t, v in ed.items()}), wit)

    def run_history(rng, lanelets, obstacles, hist, tag):
        sc = Scenario(0.1, ScenarioID(), author="a", tags={Tag.URBAN}, affiliation="b", source="c")
        sc.add_objects([copy.deepcopy(l) for l in lanelets])
        pool = {o.obstacle_id: copy.deepcopy(o) for o in obstacles}
        contained, assigned, center_only, needs_complete = set(), set(), set(), set()
        removed_before = set()
        trace = []
        for op, arg in hist:
            trace.append([op, arg])
            wit = {"history": list(trace), "obstacles": {oid: [type(o).__name__, type(o.obstacle_shape).__name__,
                                                               o.initial_state.position.tolist(),
                                                               o.initial_state.orientation] for oid, o in pool.items()},
                   "lanelets": {l.lanelet_id: {"right": l.right_vertices.tolist(), "left": l.left_vertices.tolist()}
                                for l in lanelets}}
            try:
                if op == "add":
                    if arg in contained:
                        continue
                    ctx.feature("op.re-add" if arg in removed_before else "op.add")
                    sc.add_objects(pool[arg])
                    contained.add(arg)
                elif op.startswith("assign"):
                    if not contained:
                        continue
                    ids = None
                    times = None
                    center = False
                    if op == "assign-ids":
                        ids = {arg} if arg in contained else None
                        if ids is None:
                            continue
                    elif op == "assign-times":
                        times = list(arg)
                    elif op == "assign-center-only":
                        center = True
                    ctx.feature("op." + op)
                    sc.assign_obstacles_to_lanelets(time_steps=times, obstacle_ids=ids, use_center_only=center)
                    for oid in (ids or contained):
                        ob = pool[oid]
                        for t in horizon(ob):
                            if times is not None and t not in times and not isinstance(ob, StaticObstacle):
                                continue
                            if center:
                                center_only.add(oid)
                                assigned.discard((oid, t, "shape"))
                                assigned.add((oid, t, "center"))
                            else:
                                assigned.discard((oid, t, "center"))
                                assigned.add((oid, t, "shape"))
                                if isinstance(ob, StaticObstacle) or times is None or set(horizon(ob)) <= set(times):
                                    pass
                    if not center:
                        for oid in (ids or contained):
                            if times is None:
                                needs_complete.discard(oid)
                            # (after its prediction was replaced only a COMPLETE assignment is promised to replace what
                            # was registered for the old horizon; one restricted to given time steps touches only those)
                            if all((oid, t, "shape") in assigned for t in horizon(pool[oid])) and oid not in needs_complete:
                                center_only.discard(oid)
                elif op == "move":
                    # the obstacle is moved through its public method; what was recorded is out of date until the next
                    # assignment (not judged in between), and the NEXT assignment replaces it completely
                    if arg not in contained:
                        continue
                    ctx.feature("op.move")
                    pool[arg].translate_rotate(np.array([lattice.q(rng, -6, 6), lattice.q(rng, -6, 6)]), 0.0)
                    assigned = {a for a in assigned if a[0] != arg}
                    center_only.add(arg)
                elif op == "shorten-prediction":
                    # the prediction is replaced (public update_prediction) by one with a shorter horizon; the next
                    # assignment replaces what was recorded and registered for the obstacle, also beyond the new horizon
                    ob = pool.get(arg)
                    if arg not in contained or not isinstance(ob, DynamicObstacle) or ob.prediction is None or \
                            len(ob.prediction.trajectory.state_list) < 2:
                        continue
                    from commonroad.prediction.prediction import TrajectoryPrediction
                    from commonroad.scenario.trajectory import Trajectory
                    sl_ = ob.prediction.trajectory.state_list
                    keep = copy.deepcopy(sl_[: max(1, len(sl_) // 2)])
                    if arg % 2 == 0:   # (by obstacle id: every run sees both variants)
                        ctx.feature("op.shorten-prediction")
                        ob.update_prediction(TrajectoryPrediction(Trajectory(keep[0].time_step, keep), ob.prediction.shape))
                    else:
                        # ... or only the trajectory of the SAME prediction object (which keeps what was recorded on it)
                        ctx.feature("op.shorten-trajectory")
                        ob.prediction.trajectory = Trajectory(keep[0].time_step, keep)
                    assigned = {a for a in assigned if a[0] != arg}
                    center_only.add(arg)
                    needs_complete.add(arg)
                elif op in ("remove", "remove-list"):
                    keys = [arg] if op == "remove" else list(arg)
                    keys = [k for k in keys if k in contained]
                    if not keys:
                        continue
                    ctx.feature("op." + op)
                    sc.remove_obstacle(pool[keys[0]] if op == "remove" else [pool[k] for k in keys])
                    for k in keys:
                        contained.discard(k)
                        # (needs_complete stays: the obstacle OBJECT keeps the records of its old horizon until a complete
                        # assignment, also across a removal and a later re-addition)
                        removed_before.add(k)
                        if k not in needs_complete:
                            center_only.discard(k)
                        assigned = {a for a in assigned if a[0] != k} | {a for a in assigned if a[0] == k}
            except Exception as e:  # noqa
                import traceback
                tb = traceback.extract_tb(e.__traceback__)
                site = next((f.name for f in reversed(tb) if "commonroad" in f.filename), "?")
                sk = ",".join(sorted({type(pool[k].obstacle_shape).__name__ for k in contained})) if "assign" in op else ""
                ctx.violation("C07/%s/raises-%s/%s%s" % (op.split("-")[0] if op.startswith("remove") else op,
                                                        type(e).__name__, site, ("/" + sk) if "ShapeGroup" in sk else ""),
                              repr(e)[:200], wit)
                return
            check(sc, {a for a in assigned if a[0] in contained}, center_only, wit, op.split("-")[0])

    # ----------------------------------------------------------------- exhaustive over a fixed 2-obstacle universe
    import itertools
    alphabet = [("add", 101), ("add", 102), ("assign-all", None), ("assign-ids", 101), ("assign-times", (0, 1)),
                ("assign-center-only", None), ("remove", 101), ("remove", 102), ("remove-list", (101, 102)), ("move", 101)]
    depth = ctx.pick(2, 3)
    seqs = [s for d in range(1, depth + 1) for s in itertools.product(range(len(alphabet)), repeat=d)]
    universes = ctx.pick(6, 160)
    for i, rng in ctx.cases("exhaustive", universes):
        lanelets, _ = lattice.gen_lanelets(rng, nmax=4)
        kinds = [("static", "dynamic-trajectory"), ("dynamic-trajectory", "dynamic-none"), ("static", "static")][i % 3]
        shapes = [("Rectangle", "Circle"), ("Polygon", "Rectangle"), ("Rectangle", "Rectangle"),
                  ("ShapeGroup", "Rectangle")][i % 4]
        obs = []
        for oid, k, sk in zip((101, 102), kinds, shapes):
            o, kind, skk = gen_obstacle(rng, oid, lanelets, k, sk, t0=(2 if i % 2 == 1 else 0))
            if i % 2 == 1 and k != "static":
                ctx.feature("dynamic-obstacle-entering-after-step-0")
            obs.append(o)
            ctx.feature("obstacle." + kind)
            ctx.feature("shape." + skk)
        for s in seqs:
            ctx.fingerprint(["ex", i, list(s)])
            run_history(rng, lanelets, obs, [alphabet[k] for k in s], "exhaustive")
        # scripted longer histories that every universe runs (beyond the exhaustive depth): assign, move, assign again
        for sh in ([("add", 101), ("assign-all", None), ("move", 101), ("assign-all", None)],
                   [("add", 101), ("add", 102), ("assign-all", None), ("move", 102), ("assign-ids", 102), ("remove", 102)],
                   [("add", 102), ("assign-all", None), ("move", 102), ("assign-all", None), ("remove", 102), ("add", 102)],
                   [("add", 101), ("assign-all", None), ("move", 101), ("move", 101), ("assign-all", None),
                    ("assign-center-only", None), ("assign-all", None)],
                   [("add", 101), ("add", 102), ("assign-all", None), ("shorten-prediction", 101),
                    ("shorten-prediction", 102), ("assign-all", None), ("remove", 101), ("remove", 102)],
                   [("add", 101), ("add", 102), ("assign-all", None), ("shorten-prediction", 101),
                    ("shorten-prediction", 102), ("remove", 101), ("remove", 102), ("add", 101)]):
            ctx.fingerprint(["scripted", i, [[o, a] for o, a in sh]])
            ctx.feature("scripted-history")
            run_history(rng, lanelets, obs, sh, "scripted")
    # ------------------------------------------------------------------- fixed universe: turning on the spot
    # two adjacent lanes; a long vehicle stands in the middle of lane 1 and turns without moving: heading 0 keeps it inside
    # lane 1, heading pi/2 makes it reach into lane 2 (same position at consecutive time steps, different lanelet sets)
    from commonroad.geometry.shape import Rectangle
    from commonroad.prediction.prediction import TrajectoryPrediction
    from commonroad.scenario.lanelet import Lanelet
    from commonroad.scenario.obstacle import ObstacleType
    from commonroad.scenario.state import InitialState, KSState
    from commonroad.scenario.trajectory import Trajectory
    for i, rng in ctx.cases("turning-on-the-spot", ctx.pick(6, 200)):
        x0, y0 = float(rng.randint(-40, 40)), float(rng.randint(-40, 40))
        xs = np.array([x0, x0 + 10.0, x0 + 20.0])
        bd = [np.column_stack([xs, np.full(3, y0 + 3.0 * k)]) for k in range(3)]
        lanes = [Lanelet(bd[1], (bd[0] + bd[1]) / 2, bd[0], 1, adjacent_left=2, adjacent_left_same_direction=True),
                 Lanelet(bd[2], (bd[1] + bd[2]) / 2, bd[1], 2, adjacent_right=1, adjacent_right_same_direction=True)]
        pos = np.array([x0 + 10.0, y0 + 1.5])
        headings = [[0.0, math.pi / 2, math.pi / 2, 0.0], [math.pi / 2, 0.0, 0.0, math.pi / 2], [0.0, 0.0, math.pi / 2, 0.0]][i % 3]
        shape = Rectangle(4.5, 0.5)
        ob = DynamicObstacle(101, ObstacleType.TRUCK, shape, InitialState(time_step=0, position=pos.copy(),
                                                                           orientation=headings[0], velocity=0.0),
                             TrajectoryPrediction(Trajectory(1, [KSState(time_step=t, position=pos.copy(), orientation=h,
                                                                         velocity=0.0, steering_angle=0.0)
                                                                 for t, h in enumerate(headings[1:], 1)]), shape))
        ctx.feature("turning-on-the-spot")
        for sh in ([("add", 101), ("assign-all", None), ("remove", 101)],
                   [("add", 101), ("assign-times", (1, 2)), ("assign-all", None)],
                   [("add", 101), ("assign-ids", 101), ("move", 101), ("assign-all", None)]):
            ctx.fingerprint(["turning", i, [[o, a] for o, a in sh]])
            run_history(rng, lanes, [ob], sh, "turning")
    # ------------------------------------------------------------------- fixed universe: a C-shaped body
    # three lanes side by side, the middle one begins later; a C-shaped body (a gantry / a vehicle combination seen from above)
    # has its bars on the outer lanes and its connector before the beginning of the middle lane. Its reference point (the
    # centroid of the polygon) lies on the middle lane, which the body does not touch.
    from commonroad.geometry.shape import Polygon
    from commonroad.scenario.obstacle import StaticObstacle
    for i, rng in ctx.cases("c-shaped-body", ctx.pick(4, 100)):
        x0, y0 = float(rng.randint(-40, 40)), float(rng.randint(-40, 40))

        def lane(lid, xa, ya):
            xs = np.array([xa, 20.0, 40.0]) + x0
            r_ = np.column_stack([xs, np.full(3, ya + y0)])
            l_ = np.column_stack([xs, np.full(3, ya + 3.0 + y0)])
            return Lanelet(l_, (l_ + r_) / 2, r_, lid)
        lanes = [lane(1, 0.0, 0.0), lane(2, 10.0, 3.0), lane(3, 0.0, 6.0)]
        body = Polygon(np.array([[2.0, 0.5], [30.0, 0.5], [30.0, 2.5], [4.0, 2.5], [4.0, 6.5], [30.0, 6.5], [30.0, 8.5],
                                 [2.0, 8.5]]))
        pos = np.array([x0, y0])
        kind = ("static", "dynamic")[i % 2]
        if kind == "static":
            ob = StaticObstacle(101, ObstacleType.CONSTRUCTION_ZONE, body, InitialState(time_step=0, position=pos,
                                                                                        orientation=0.0, velocity=0.0))
        else:
            ob = DynamicObstacle(101, ObstacleType.TRUCK, body, InitialState(time_step=0, position=pos, orientation=0.0,
                                                                             velocity=0.0),
                                 TrajectoryPrediction(Trajectory(1, [KSState(time_step=1, position=pos + np.array([1.0, 0.0]),
                                                                             orientation=0.0, velocity=1.0,
                                                                             steering_angle=0.0)]), body))
        ctx.feature("c-shaped-body." + kind)
        for sh in ([("add", 101), ("assign-all", None), ("remove", 101)], [("add", 101), ("assign-ids", 101)]):
            ctx.fingerprint(["c-shape", i, [[o, a] for o, a in sh]])
            run_history(rng, lanes, [ob], sh, "c-shape")
    # -------------------------------------------------------------------------------------------- random histories
    n = ctx.pick(120, 50000)
    for i, rng in ctx.cases("random", n):
        lanelets, _ = lattice.gen_lanelets(rng, nmax=6)
        obs = []
        for oid in range(201, 201 + rng.randint(1, 4)):
            o, kind, sk = gen_obstacle(rng, oid, lanelets)
            obs.append(o)
            ctx.feature("obstacle." + kind)
            ctx.feature("shape." + sk)
        ids = [o.obstacle_id for o in obs]
        hist = [("add", ids[0])]
        for _ in range(rng.randint(2, 13)):
            c = rng.random()
            if c < 0.3:
                hist.append(("add", rng.choice(ids)))
            elif c < 0.45:
                hist.append(("assign-all", None))
            elif c < 0.55:
                hist.append(("assign-ids", rng.choice(ids)))
            elif c < 0.65:
                hist.append(("assign-times", tuple(sorted(rng.sample(range(0, 5), rng.randint(1, 3))))))
            elif c < 0.72:
                hist.append(("assign-center-only", None))
            elif c < 0.77:
                hist.append(("move", rng.choice(ids)))
            elif c < 0.80:
                hist.append(("shorten-prediction", rng.choice(ids)))
            elif c < 0.9:
                hist.append(("remove", rng.choice(ids)))
            else:
                hist.append(("remove-list", tuple(rng.sample(ids, rng.randint(1, len(ids))))))
        ctx.fingerprint(["rnd", i, [[o, a] for o, a in hist]])
        if i < 2:
            ctx.sample({"history": [[o, a] for o, a in hist], "obstacles": [[type(o).__name__,
                                                                             type(o.obstacle_shape).__name__] for o in obs]})
        run_history(rng, lanelets, obs, hist, "random")
    # ------------------------------------------------------------ second route: file write + open(lanelet_assignment)
    n = ctx.pick(40, 6000)
    for i, rng in ctx.cases("files", n):
        lanelets, _ = lattice.gen_lanelets(rng, nmax=5, types=True)
        sc = Scenario(0.1, ScenarioID(), author="a", tags={Tag.URBAN}, affiliation="b", source="c")
        sc.add_objects([copy.deepcopy(l) for l in lanelets])
        obs = []
        for oid in range(301, 301 + rng.randint(1, 4)):
            if oid == 301 and i % 2 == 1:
                # the protobuf format stores the obstacle's shape and the predicted footprint separately
                o, kind, sk = gen_obstacle(rng, oid, lanelets, kind="dynamic-trajectory", shape_kind="Rectangle")
                ctx.feature("file-with-separate-predicted-footprint")
            else:
                o, kind, sk = gen_obstacle(rng, oid, lanelets, shape_kind=rng.choice(["Rectangle", "Circle", "Polygon"]))
            if isinstance(o, DynamicObstacle) and o.prediction is None and i % 2 == 0:
                continue  # the XML schema requires a prediction
            obs.append(o)
            sc.add_objects(o)
        fmt = "xml" if i % 2 == 0 else "pb"
        ctx.feature("route." + ("xml" if fmt == "xml" else "protobuf"))
        if fmt == "xml":
            from commonroad.planning.planning_problem import PlanningProblemSet
        try:
            sc2, _ = io.roundtrip(sc, None, fmt, precision=6, lanelet_assignment=True)
        except Exception as e:  # noqa
            ctx.violation("C07/open(lanelet_assignment)/raises-%s/%s" % (type(e).__name__, fmt), repr(e)[:200], {"i": i})
            continue
        assigned = set()
        for ob in sc2.obstacles:
            if isinstance(ob, (StaticObstacle, DynamicObstacle)):
                for t in horizon(ob):
                    assigned.add((ob.obstacle_id, t, "shape"))
        ctx.fingerprint(["file", fmt, i])
        wit = {"route": fmt, "obstacles": {o.obstacle_id: [type(o).__name__, type(o.obstacle_shape).__name__,
                                                           o.initial_state.position.tolist(),
                                                           o.prediction is not None if isinstance(o, DynamicObstacle)
                                                           else None] for o in obs}}
        check(sc2, assigned, set(), wit, "open-%s" % fmt)
        # and removal after reading
        for ob in list(sc2.obstacles):
            try:
                sc2.remove_obstacle(ob)
            except Exception as e:  # noqa
                ctx.violation("C07/remove/raises-%s/after-open-%s" % (type(e).__name__, fmt), repr(e)[:200], wit)
                break
        else:
            check(sc2, set(), set(), wit, "remove-after-open-%s" % fmt)

    # ----------------------------------------------------------------- a scenario that has no lanelets (yet)
    # obstacles are on no lanelet then: the assignment records empty sets, it does not fail
    for i, rng in ctx.cases("no-lanelets", ctx.pick(6, 100)):
        ref_lanelets, _ = lattice.gen_lanelets(rng, nmax=2)   # only used to place the obstacles somewhere
        sc = Scenario(0.1)
        obs = []
        for oid in (401, 402):
            o, kind, sk = gen_obstacle(rng, oid, ref_lanelets, kind=("static", "dynamic-trajectory")[(oid + i) % 2],
                                       shape_kind=("Rectangle", "Polygon")[i % 2])
            sc.add_objects(o)
            obs.append(o)
        ctx.feature("scenario-without-lanelets")
        ctx.evaluation()
        ctx.fingerprint(["no-lanelets", i])
        wit = {"route": "scenario-without-lanelets", "obstacles": [o.obstacle_id for o in obs]}
        try:
            sc.assign_obstacles_to_lanelets()
        except Exception as e:  # noqa
            ctx.violation("C07/assign/raises-%s/scenario-without-lanelets" % type(e).__name__, repr(e)[:200], wit)
            continue
        assigned = {(o.obstacle_id, t, "shape") for o in obs for t in horizon(o)}
        check(sc, assigned, set(), wit, "assign-without-lanelets")

    # ----------------------------------------------------------------- an obstacle comes back after a lanelet it stood on is gone
    # assigned, taken out, one of its lanelets removed from the scenario, added again: adding does not fail (the records of the
    # obstacle name a lanelet that no longer exists), and after a new assignment everything agrees again
    for i, rng in ctx.cases("re-add-after-lanelet-removal", ctx.pick(12, 300)):
        lanelets, _ = lattice.gen_lanelets(rng, nmax=5)
        if len(lanelets) < 2:
            continue
        sc = Scenario(0.1)
        sc.add_objects([copy.deepcopy(l) for l in lanelets])
        kind = ("static", "dynamic-trajectory")[i % 2]
        ob, _, sk = gen_obstacle(rng, 501, lanelets, kind=kind, shape_kind="Rectangle")
        sc.add_objects(ob)
        wit = {"route": "re-add-after-lanelet-removal", "kind": kind}
        try:
            sc.assign_obstacles_to_lanelets()
            on = set(ob.initial_shape_lanelet_ids or ())
            if isinstance(ob, DynamicObstacle) and ob.prediction is not None and ob.prediction.shape_lanelet_assignment:
                on |= set().union(*ob.prediction.shape_lanelet_assignment.values())
            if not on:
                ctx.counter("re-add.obstacle-on-no-lanelet")
                continue
            sc.remove_obstacle(ob)
            victim = sorted(on)[0]
            sc.remove_lanelet(sc.lanelet_network.find_lanelet_by_id(victim))
            ctx.feature("re-add-after-a-lanelet-of-the-obstacle-was-removed")
            ctx.evaluation()
            ctx.fingerprint(["re-add", i])
            try:
                sc.add_objects(ob)
            except Exception as e:  # noqa
                ctx.violation("C07/add/raises-%s/records-name-a-removed-lanelet" % type(e).__name__, repr(e)[:200], wit)
                continue
            if sc.obstacle_by_id(501) is None:
                ctx.violation("C07/add/obstacle-not-contained-after-add", "obstacle 501", wit)
                continue
            sc.assign_obstacles_to_lanelets()
            check(sc, {(501, t, "shape") for t in horizon(ob)}, set(), wit, "assign-after-re-add")
            sc.remove_obstacle(ob)
            check(sc, set(), set(), wit, "remove-after-re-add")
        except Exception as e:  # noqa
            ctx.violation("C07/re-add-history/raises-%s" % type(e).__name__, repr(e)[:200], wit)
