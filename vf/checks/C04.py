"""C04 — obstacle occupancy is the shape placed at the state, for every time step; scenario-level queries agree.

Monitors: vf.monitors.occupancy (icontract postconditions on every occupancy/state query). The driver generates
obstacles of all roles with unambiguous positions (position encodes obstacle id and time step) and queries every
time step in and around the horizon."""
import math

CLAIM = True
RULE = ("obstacles of all four roles x shapes (rectangle, circle, polygon, shape group) x state classes (Initial, KS, "
        "KST, ST, STD, MB, ExtendedPM, PM in all quadrants, custom) x prediction kinds (trajectory starting at t0+1, "
        "with gap, set-based with int/interval steps, none) x exact / uncertain position (rectangle, circle, polygon "
        "regions, rotated and asymmetric) / uncertain orientation (width 0..2pi) x t in t0-3..t_final+3; scenario-level "
        "queries on mixed scenarios incl. position boxes through obstacle centres. distinct = structural fingerprint "
        "of the obstacle; non-trivial = has a prediction or an uncertain state")
ANCHORS = ["occupancy_shape_from_state", "DynamicObstacle.occupancy_at_time", "DynamicObstacle.state_at_time",
           "StaticObstacle.occupancy_at_time", "PhantomObstacle.occupancy_at_time",
           "EnvironmentObstacle.occupancy_at_time", "Prediction.occupancy_at_time_step", "Trajectory.state_at_time_step",
           "TrajectoryPrediction._create_occupancy_set", "Scenario.occupancies_at_time_step",
           "Scenario.obstacle_states_at_time_step", "Scenario.obstacles_by_role_and_type",
           "Scenario.obstacles_by_position_intervals"]
REQUIRED = ["requery-after.obstacle.update_initial_state", "velocity-vector-state.moved-on-level-of-scenario", "velocity-vector-state.moved-on-level-of-trajectory", "contract.velocity-vector-state.asked-before-moved", "requery-after.static.obstacle.translate_rotate", "set.intervals-sharing-a-step", "requery-after.trajectory.translate_rotate", "requery-after.prediction.shape=", "role.static", "role.dynamic", "role.phantom", "role.environment", "pred.trajectory", "pred.gap", "pred.set",
            "pred.set-interval", "pred.none", "pred.overlap", "state.PMState", "state.KSState", "state.MBState", "state.CustomState",
            "exact-placement.Rectangle", "exact-placement.Circle", "exact-placement.Polygon",
            "exact-placement.ShapeGroup", "uncertain-position.Rectangle", "uncertain-position.Circle",
            "uncertain-position.Polygon", "uncertain-orientation", "t.before", "t.after", "pm.quadrant-2",
            "pm.quadrant-3", "contract.Scenario.occupancies_at_time_step",
            "contract.Scenario.obstacle_states_at_time_step", "contract.Scenario.obstacles_by_role_and_type",
            "contract.Scenario.obstacles_by_position_intervals", "contract.DynamicObstacle.state_at_time",
            "box-through-centre"]
ASSUMPTIONS = ["shape placement follows the documented local convention (rotate about the shape's own centre, then "
               "translate); identical to the plain reading for origin-centred shapes",
               "enclosure of uncertain states is tested on sampled admissible placements (region vertices/extremes, "
               "interval ends, random interior), tightness is not demanded",
               "trajectory states have consecutive time steps"]
SHARDS = {"quick": 4, "thorough": 16}
TRAJ_CLASSES = ["KSState", "KSTState", "STState", "STDState", "MBState", "ExtendedPMState", "PMState", "CustomState"]


def gen_shape(G, rng, allow_group=True):
    import numpy as np
    from commonroad.geometry.shape import Polygon
    k = rng.choice(["rectangle", "rectangle", "circle", "polygon", "group"] if allow_group else
                   ["rectangle", "circle", "polygon"])
    if k == "rectangle":
        return G.rectangle(at_origin=True) if rng.random() < 0.8 else G.rectangle(center=np.array([0.0, 0.0]),
                                                                                  orientation=rng.uniform(-1, 1))
    if k == "circle":
        return G.circle(at_origin=True)
    if k == "polygon":
        from vf.oracle import geom
        v = G.polygon_vertices(at_origin=True)
        c = geom.centroid(geom.open_ring(v))
        return Polygon(v - np.array(c))
    return G.shape_group()


def gen_state(G, rng, cls, t, oid, uncertain=None):
    """state with a position that encodes (obstacle id, time step)"""
    import numpy as np
    import commonroad.scenario.state as st
    from commonroad.common.util import AngleInterval
    pos = np.array([100.0 * oid + t + 0.25, 50.0 * oid - t + 0.125])
    if cls == "CustomState":
        s = st.CustomState(time_step=t, position=pos, orientation=G.angle(), velocity=3.5)
    elif cls == "PMState":
        q = rng.choice([1, 2, 3, 4, "axis"])
        sp = rng.uniform(0.5, 20)
        if q == "axis":
            vx, vy = rng.choice([(sp, 0.0), (-sp, 0.0), (0.0, sp), (0.0, -sp)])
        else:
            a = rng.uniform(0.05, math.pi / 2 - 0.05) + (q - 1) * math.pi / 2
            vx, vy = sp * math.cos(a), sp * math.sin(a)
        s = st.PMState(time_step=t, position=pos, velocity=vx, velocity_y=vy)
        s._q = q
    else:
        kw = G.state_kw(cls, t, True)
        kw["position"] = pos
        s = getattr(st, cls)(**kw)
    if uncertain == "position":
        kind = rng.choice(["rect", "rect-rot", "circle", "poly"])
        if kind == "rect":
            s.position = G.rectangle(center=pos, orientation=0.0)
        elif kind == "rect-rot":
            s.position = G.rectangle(center=pos, orientation=rng.uniform(-3, 3))
        elif kind == "circle":
            s.position = G.circle(center=pos)
        else:
            from commonroad.geometry.shape import Polygon
            tri = np.array([pos, pos + np.array([rng.uniform(1, 4), 0.0]), pos + np.array([0.0, rng.uniform(1, 4)])])
            s.position = Polygon(tri) if rng.random() < 0.5 else Polygon(G.polygon_vertices(at_origin=True) + pos)
    elif uncertain == "orientation" and cls != "PMState":
        w = rng.choice([0.0, 0.1, 0.5, 1.0, math.pi / 2, 2.0, math.pi, 4.0, 6.0])
        a = rng.uniform(-math.pi, math.pi - w) if w < 2 * math.pi - 0.3 and w <= math.pi else -w / 2
        s.orientation = AngleInterval(a, a + w)
    elif uncertain == "both" and cls != "PMState":
        s.position = G.rectangle(center=pos, orientation=rng.uniform(-1, 1))
        a = rng.uniform(-1, 1)
        s.orientation = AngleInterval(a, a + rng.choice([0.1, 0.5, 1.0]))
    return s


def run(ctx):
    import numpy as np
    from commonroad.common.util import Interval
    from commonroad.prediction.prediction import Occupancy, SetBasedPrediction, TrajectoryPrediction
    from commonroad.scenario.obstacle import (DynamicObstacle, EnvironmentObstacle, ObstacleRole, ObstacleType,
                                              PhantomObstacle, StaticObstacle)
    from commonroad.scenario.scenario import Scenario
    from commonroad.scenario.trajectory import Trajectory
    from vf import monitors
    from vf.gen.objects import Gen
    from vf.monitors import occupancy
    monitors.set_sink(ctx)
    occupancy.install()

    def mk_dynamic(G, rng, oid, i):
        t0 = rng.choice([0, 0, 0, 3, 10])
        unc = rng.choice([None, None, None, "position", "orientation", "both"])
        shape = gen_shape(G, rng, allow_group=True)
        init = gen_state(G, rng, "InitialState", t0, oid, uncertain=rng.choice([None, None, unc]))
        pk = ["trajectory", "gap", "set", "set-interval", "none", "overlap"][i % 6]
        pred, tf = None, t0
        if pk in ("trajectory", "gap", "overlap"):
            cls = TRAJ_CLASSES[(i // 5) % len(TRAJ_CLASSES)]
            ts = t0 + 1 + (rng.randint(1, 3) if pk == "gap" else 0)
            if pk == "overlap":
                # the trajectory begins at or BEFORE the initial time step (an obstacle re-anchored at a later measured
                # state keeps its prediction): before the initial time step the obstacle has neither state nor occupancy
                ts = max(0, t0 - rng.randint(0, 2))
            n = rng.randint(1, 6)
            u2 = unc if cls != "PMState" else (unc if unc == "position" else None)
            states = [gen_state(G, rng, cls, ts + k, oid, uncertain=u2) for k in range(n)]
            ctx.feature("state." + cls)
            if cls == "PMState":
                for s in states:
                    ctx.feature("pm.quadrant-%s" % getattr(s, "_q", "?"))
            pshape = shape if rng.random() < 0.8 else gen_shape(G, rng, allow_group=True)
            pred = TrajectoryPrediction(Trajectory(ts, states), pshape)
            tf = ts + n - 1
        elif pk in ("set", "set-interval"):
            n = rng.randint(1, 5)
            occs, t = [], t0 + 1
            touching = pk == "set-interval" and (i // 6) % 3 == 1
            for k in range(n):
                if pk == "set-interval" and rng.random() < 0.6:
                    w = rng.randint(0, 2) + (1 if touching else 0)
                    occs.append(Occupancy(Interval(t, t + w), G.shape()))
                    # touching: the next occupancy starts AT the last step of this interval (both cover that step)
                    t += w + (0 if touching else 1)
                    if touching:
                        ctx.feature("set.intervals-sharing-a-step")
                else:
                    occs.append(Occupancy(t, G.shape()))
                    t += 0 if touching and rng.random() < 0.5 else 1
            if touching:
                t += 1
            pred = SetBasedPrediction(t0 + 1, occs)
            tf = t - 1
        ctx.feature("pred." + pk)
        if unc:
            ctx.feature("uncertain." + unc)
        ob = DynamicObstacle(oid, G.enum(ObstacleType), shape, init, pred)
        return ob, t0, tf, {"kind": pk, "t0": t0, "tf": tf, "uncertain": unc, "shape": type(shape).__name__}

    n = ctx.pick(500, 40000)
    for i, rng in ctx.cases("obstacles", n):
        G = Gen(rng)
        oid = 1 + i % 50
        role = ["dynamic", "dynamic", "dynamic", "static", "phantom", "environment"][i % 6]
        ctx.feature("role." + role)
        try:
            if role == "dynamic":
                ob, t0, tf, desc = mk_dynamic(G, rng, oid, i // 6)
            elif role == "static":
                unc = rng.choice([None, None, "position", "orientation", "both"])
                shape = gen_shape(G, rng, allow_group=True)
                ob = StaticObstacle(oid, G.enum(ObstacleType), shape, gen_state(G, rng, "InitialState", 0, oid, unc))
                t0, tf, desc = 0, 5, {"uncertain": unc, "shape": type(shape).__name__}
            elif role == "phantom":
                k = rng.randint(0, 4)
                occs = [Occupancy(2 + j if rng.random() < 0.7 else Interval(2 + j, 2 + j), G.shape()) for j in range(k)]
                ob = PhantomObstacle(oid, SetBasedPrediction(2, occs) if k or rng.random() < 0.5 else None)
                t0, tf, desc = 2, 2 + k, {"n": k}
            else:
                ob = EnvironmentObstacle(oid, ObstacleType.BUILDING, G.shape())
                t0, tf, desc = 0, 3, {}
        except Exception as e:  # noqa
            ctx.violation("C04/construct/%s/raises-%s" % (role, type(e).__name__), repr(e), {"role": role, "i": i})
            continue
        ctx.evaluation()
        if role != "environment" and (desc.get("kind", "none") != "none" or desc.get("uncertain")):
            ctx.fingerprint([role, desc, oid])
        if i < 3:
            ctx.sample({"role": role, "obstacle": desc, "id": oid})
        for t in range(t0 - 3, tf + 4):
            ctx.evaluation()
            ctx.feature("t.before" if t < t0 else "t.after" if t > tf else "t.inside")
            try:
                ob.occupancy_at_time(t)
            except Exception as e:  # noqa
                unc = desc.get("uncertain")
                ctx.violation("C04/%s.occupancy_at_time/raises-%s/%s/%s" % (type(ob).__name__, type(e).__name__,
                                                                           desc.get("shape", "-"),
                                                                           "uncertain" if unc else "exact"),
                              "t=%d: %r" % (t, e), {"role": role, "desc": desc, "t": t})
            if role == "dynamic":
                try:
                    ob.state_at_time(t)
                except Exception as e:  # noqa
                    ctx.violation("C04/DynamicObstacle.state_at_time/raises-%s" % type(e).__name__, "t=%d: %r" % (t, e),
                                  {"desc": desc, "t": t})
        # query -> transform / re-assign -> query: the occupancy must be the shape placed at the state the obstacle has NOW
        if role == "dynamic" and desc["kind"] in ("trajectory", "gap", "overlap"):
            op = ["trajectory.translate_rotate", "prediction.translate_rotate", "obstacle.translate_rotate",
                  "prediction.shape=", "prediction.trajectory=", "obstacle.update_initial_state"][(i // 36 + i // 6) % 6]
            ctx.feature("requery-after." + op)
            tr, an = np.array([rng.uniform(-20, 20), rng.uniform(-20, 20)]), rng.choice([0.0, 0.03, 1.0, -2.5])
            try:
                if op == "trajectory.translate_rotate":
                    ob.prediction.trajectory.translate_rotate(tr, an)
                elif op == "prediction.translate_rotate":
                    ob.prediction.translate_rotate(tr, an)
                elif op == "obstacle.translate_rotate":
                    ob.translate_rotate(tr, an)
                elif op == "obstacle.update_initial_state":
                    # the obstacle is re-anchored at a measured state inside the horizon of its (old) prediction; the
                    # measurement differs from what had been predicted for that step
                    import commonroad.scenario.state as st__
                    t1 = min(max(t0 + 1, ob.prediction.initial_time_step), tf)
                    ob.update_initial_state(st__.InitialState(
                        time_step=t1, position=np.array([100.0 * oid + t1 + 0.25, 50.0 * oid - t1 + 0.125]) + tr * 0.1,
                        orientation=float(an) + 0.4, velocity=1.0, acceleration=0.0, yaw_rate=0.0, slip_angle=0.0))
                    t0 = t1
                elif op == "prediction.shape=":
                    ob.prediction.shape = gen_shape(G, rng, allow_group=False)
                else:
                    old_tr = ob.prediction.trajectory
                    ob.prediction.trajectory = Trajectory(old_tr.initial_time_step, [
                        s.translate_rotate(tr, an) for s in old_tr.state_list])
                for t in range(t0, tf + 2):
                    ctx.evaluation()
                    ob.occupancy_at_time(t)
            except Exception as e:  # noqa
                ctx.violation("C04/requery-after/%s/raises-%s" % (op, type(e).__name__), repr(e)[:200],
                              {"role": role, "desc": desc})
        # the same for static obstacles: moved through their own method / given a new initial state, then asked again
        if role == "static":
            op = ["obstacle.translate_rotate", "initial_state=", "obstacle.translate_rotate-zero-translation"][(i // 6) % 3]
            ctx.feature("requery-after.static." + op)
            try:
                an = rng.choice([0.03, 1.0, -2.5, math.pi / 2])
                if op == "initial_state=":
                    ob.initial_state = ob.initial_state.translate_rotate(np.array([3.0, -2.0]), an)
                else:
                    ob.translate_rotate(np.array([0.0, 0.0]) if op.endswith("zero-translation") else
                                        np.array([rng.uniform(-20, 20), rng.uniform(-20, 20)]), an)
                for t in (0, 3):
                    ctx.evaluation()
                    ob.occupancy_at_time(t)
            except Exception as e:  # noqa
                ctx.violation("C04/requery-after/static/%s/raises-%s" % (op, type(e).__name__), repr(e)[:200],
                              {"role": role, "desc": desc})
        # static: same region at all times
        if role == "static":
            try:
                from vf.oracle import geom
                a = geom.describe(ob.occupancy_at_time(0).shape)
                b = geom.describe(ob.occupancy_at_time(17).shape)
                if not geom.desc_equal(a, b):
                    ctx.violation("C04/StaticObstacle.occupancy_at_time/varies-with-time", "%s vs %s" % (a, b), desc)
            except Exception:  # noqa  (already reported)
                pass

    # ------------------------------------------------------------- states that give their heading as a velocity vector
    # CustomState(position, velocity, velocity_y) without orientation: the heading is atan2(vy, vx) of the velocity the state
    # has NOW -- also after the occupancies were asked for once and the obstacle was moved on some level afterwards
    import commonroad.scenario.state as st_
    from commonroad.geometry.shape import Rectangle
    for i, rng in ctx.cases("velocity-vector-states", ctx.pick(48, 3000)):
        oid, t0 = 1 + i % 7, [0, 4][i % 2]
        nst = 2 + i % 4
        shape = Rectangle(rng.uniform(3, 6), rng.uniform(1, 2.5))
        def vv(t):
            a = rng.uniform(-math.pi, math.pi)
            sp = rng.uniform(0.5, 20)
            return st_.CustomState(time_step=t, position=np.array([100.0 * oid + t + 0.25, 50.0 * oid - t + 0.125]),
                                   velocity=sp * math.cos(a), velocity_y=sp * math.sin(a))
        level = ["trajectory", "prediction", "obstacle", "scenario"][i % 4]
        ang = [1.0, -2.5, math.pi / 2, 0.03, 0.0][(i // 4) % 5]
        tr = np.array([rng.uniform(-20, 20), rng.uniform(-20, 20)])
        wit = {"case": i, "level": level, "angle": ang, "translation": list(map(float, tr)), "t0": t0, "states": nst}
        try:
            ob = DynamicObstacle(oid, ObstacleType.CAR, shape, st_.InitialState(
                time_step=t0, position=np.array([100.0 * oid + t0 + 0.25, 50.0 * oid - t0 + 0.125]), orientation=0.3,
                velocity=1.0), TrajectoryPrediction(Trajectory(t0 + 1, [vv(t0 + 1 + k) for k in range(nst)]), shape))
            sc = Scenario(0.1)
            sc.add_objects(ob)
            ctx.feature("velocity-vector-state.moved-on-level-of-" + level)
            for rnd in range(3):
                for t in range(t0 + 1, t0 + nst + 1):
                    ctx.evaluation()
                    occ, sta = ob.occupancy_at_time(t), ob.state_at_time(t)
                    pm = st_.PMState(time_step=t, position=np.array(sta.position, dtype=float), velocity=sta.velocity,
                                     velocity_y=sta.velocity_y)
                    occupancy.judge_placed("velocity-vector-state%s" % ("" if rnd == 0 else ".asked-before-moved"),
                                           shape, pm, occ, t, dict(wit, t=t, round=rnd))
                if rnd == 2:
                    break
                if level == "trajectory":
                    ob.prediction.trajectory.translate_rotate(tr, ang)
                elif level == "prediction":
                    ob.prediction.translate_rotate(tr, ang)
                elif level == "obstacle":
                    ob.translate_rotate(tr, ang)
                else:
                    sc.translate_rotate(tr, ang)
            ctx.fingerprint(["vv", level, ang, t0, nst, oid])
        except Exception as e:  # noqa
            ctx.violation("C04/velocity-vector-state/raises-%s" % type(e).__name__, repr(e)[:200], wit)

    # -------------------------------------------------------------------------------------------- scenario level
    n = ctx.pick(150, 6000)
    for i, rng in ctx.cases("scenarios", n):
        G = Gen(rng)
        sc = Scenario(0.1)
        obs, k = [], 0
        for oid in range(1, rng.randint(3, 9)):
            role = rng.choice(["dynamic", "dynamic", "static", "phantom", "environment"])
            try:
                if role == "dynamic":
                    ob = mk_dynamic(Gen(rng), rng, oid, rng.randint(0, 100))[0]
                elif role == "static":
                    ob = StaticObstacle(oid, G.enum(ObstacleType), gen_shape(G, rng),
                                        gen_state(G, rng, "InitialState", 0, oid,
                                                  uncertain=rng.choice([None, None, "position", "orientation"])))
                elif role == "phantom":
                    ob = PhantomObstacle(oid, SetBasedPrediction(1, [Occupancy(1 + j, G.basic_shape()) for j in range(3)]))
                else:
                    ob = EnvironmentObstacle(oid, ObstacleType.BUILDING, G.basic_shape())
                sc.add_objects(ob)
                obs.append(ob)
            except Exception:  # noqa
                continue
        ctx.evaluation()
        ctx.fingerprint(["scenario", [(type(o).__name__, o.obstacle_id) for o in obs]])
        for t in range(0, 8):
            for role in [None] + list(ObstacleRole):
                ctx.evaluation()
                try:
                    sc.occupancies_at_time_step(t, role)
                except Exception as e:  # noqa
                    ctx.violation("C04/Scenario.occupancies_at_time_step/raises-%s" % type(e).__name__, repr(e), {"t": t})
            try:
                sc.obstacle_states_at_time_step(t)
            except Exception as e:  # noqa
                ctx.violation("C04/Scenario.obstacle_states_at_time_step/raises-%s" % type(e).__name__, repr(e), {"t": t})
        for role in [None] + list(ObstacleRole):
            for ty in [None, ObstacleType.CAR, ObstacleType.BUILDING, rng.choice(list(ObstacleType))]:
                ctx.evaluation()
                try:
                    sc.obstacles_by_role_and_type(role, ty)
                except Exception as e:  # noqa
                    ctx.violation("C04/Scenario.obstacles_by_role_and_type/raises-%s/%s" % (
                        type(e).__name__, "type-filter" if ty is not None else "no-type-filter"), repr(e),
                        {"role": str(role), "type": str(ty), "obstacles": [type(o).__name__ for o in obs]})
        # position boxes: borders exactly through obstacle centres, and generous / empty boxes
        for ob in obs[:4]:
            try:
                t = rng.choice([0, 1, 2])
                occ = ob.occupancy_at_time(t)
                c = getattr(occ.shape, "center", None) if occ is not None else None
            except Exception:  # noqa
                c = None
            if c is None:
                continue
            ctx.feature("box-through-centre")
            x, y = float(c[0]), float(c[1])
            for ix, iy in ((Interval(x, x + 5), Interval(y - 5, y)), (Interval(x - 5, x), Interval(y, y + 5)),
                           (Interval(x + 0.125, x + 5), Interval(y - 5, y + 5)), (Interval(-1e6, 1e6), Interval(-1e6, 1e6)),
                           (Interval(x, x), Interval(y, y))):
                for roles in ((ObstacleRole.DYNAMIC, ObstacleRole.STATIC), tuple(ObstacleRole), (ObstacleRole.Phantom,),
                              (ObstacleRole.ENVIRONMENT, ObstacleRole.STATIC)):
                    ctx.evaluation()
                    try:
                        sc.obstacles_by_position_intervals([ix, iy], roles, t)
                    except Exception as e:  # noqa
                        ctx.violation("C04/Scenario.obstacles_by_position_intervals/raises-%s" % type(e).__name__,
                                      repr(e), {"t": t, "roles": [r.name for r in roles]})

    # ambient workload (thorough tier): the repository's own tests with the contracts installed
    if not ctx.quick and ctx.shard == 0 and ctx.only is None:
        from vf.ambient import run_ambient
        run_ambient(ctx, ['occupancy'])
