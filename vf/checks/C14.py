"""C14 — solution files round-trip exactly and follow the shipped solution schema."""
import math
import os
import struct

CLAIM = True
RULE = ("generated Solutions: every trajectory kind (PM, ST, KS, KST, MB, Input, PMInput) x every vehicle type x "
        "admissible cost, 1..4 planning problems, unique per-field values mixed with hostile magnitudes (subnormals, "
        "1e+-300, -0.0, random finite bit patterns, python ints), optional computation time / date / processor name, "
        "state lists partly supplied in non-ascending time order; monitor = postcondition on "
        "CommonRoadSolutionWriter.dump: re-read with the real reader and compare bit-exactly, validate against the "
        "shipped XSD when all trajectory types are schema-defined and listed in schema order. distinct = structural "
        "fingerprint of (kinds, models, types, costs, meta kinds, #states); all cases non-trivial")
ANCHORS = ["CommonRoadSolutionWriter.dump", "CommonRoadSolutionWriter._create_sub_element",
           "CommonRoadSolutionReader._parse_state", "CommonRoadSolutionReader._parse_trajectory"]
REQUIRED = ["kind.PM", "kind.ST", "kind.KS", "kind.KST", "kind.MB", "kind.Input", "kind.PMInput", "xsd.validated",
            "cooperative", "non-ascending-input", "meta.date.none", "meta.date.micro", "meta.date.cleared", "meta.date.midnight", "cost-and-vehicle-type-changed-after-id-was-read", "trajectory-reassigned-with-other-kind", "meta.processor_name",
            "meta.computation_time", "meta.computation_time.numpy-scalar", "pretty", "not-pretty", "file-route", "pp-id-reassigned-after-construction"]
ASSUMPTIONS = ["state values are finite python floats / ints (ints up to 10^6 so that float() is exact)",
               "XSD validation only for documents whose trajectory types the schema defines, generated in schema order"]
SHARDS = {"quick": 2, "thorough": 16}


def bits(x):
    return struct.pack("<d", float(x))


def same(a, b):
    """bit-identical as IEEE doubles (ints compare by value)"""
    if isinstance(a, int) and not isinstance(a, bool):
        return float(a) == b and not (a == 0 and math.copysign(1, b) < 0)
    return bits(a) == bits(b)


def run(ctx):
    import lxml.etree as le
    from commonroad.common.solution import CommonRoadSolutionReader, CommonRoadSolutionWriter, TrajectoryType
    from vf.gen import solutions as G
    import commonroad
    xsd_path = os.path.join(os.path.dirname(commonroad.__file__), "scenario_definition", "xml_definition_files",
                            "CommonRoadSolution_schema.xsd")
    schema = le.XMLSchema(le.parse(xsd_path))
    kinds_all = list(G.MODEL_FIELDS)
    tmpdir = os.environ.get("VERIF_TMP", "/tmp")

    n = ctx.pick(700, 200000)
    for i, rng in ctx.cases("solution", n):
        # coverage table first: each kind alone, then each kind in a cooperative pair, then schema-ordered lists
        if i < len(kinds_all):
            kinds = [kinds_all[i]]
        elif i < 2 * len(kinds_all):
            kinds = [kinds_all[i - len(kinds_all)], rng.choice(kinds_all)]
        elif i % 3 == 0:
            ks = sorted(rng.sample(G.SCHEMA_ORDER, rng.randint(1, 4)), key=G.SCHEMA_ORDER.index)
            kinds = ks
        else:
            kinds = [rng.choice(kinds_all) for _ in range(rng.choice([1, 1, 2, 3, 4]))]
        try:
            sol, spec = G.gen_solution(rng, kinds, hostile=(i % 4 != 1))
        except Exception as e:  # noqa
            ctx.violation("C14/construct/raises-%s" % type(e).__name__, "kinds %s: %r" % (kinds, e), kinds)
            continue
        if i % 5 == 4:
            # planning_problem_id is a plain public attribute: a solution whose ids were (re-)assigned after construction
            # is still a solution, and the ids it has NOW are the ones to be written
            pss = sol.planning_problem_solutions
            new_ids = [p["pp_id"] for p in spec["pps"]][::-1] if len(pss) > 1 and i % 2 == 0 else \
                [p["pp_id"] + 10000 for p in spec["pps"]]
            for ps, p, nid in zip(pss, spec["pps"], new_ids):
                ps.planning_problem_id = nid
                p["pp_id"] = nid
            ctx.feature("pp-id-reassigned-after-construction")
        if i % 5 == 2:
            # the solution has been LOOKED at (its benchmark id was asked for, e.g. for a file name); afterwards cost function
            # and vehicle type of a planning-problem solution are changed through their public attributes (the same
            # trajectory submitted for another cost function): what is written is what the solution is NOW
            from commonroad.common.solution import SupportedCostFunctions, VehicleType
            _ = sol.benchmark_id
            ps0, p0 = sol.planning_problem_solutions[0], spec["pps"][0]
            others = [c_ for c_ in SupportedCostFunctions[p0["model"]].value if c_.name != p0["cost"]]
            if others:
                ps0.cost_function = others[i % len(others)]
                p0["cost"] = ps0.cost_function.name
            vt = [v_ for v_ in VehicleType if v_.name != p0["vtype"]][i % (len(VehicleType) - 1)]
            ps0.vehicle_type = vt
            p0["vtype"] = vt.name
            ctx.feature("cost-and-vehicle-type-changed-after-id-was-read")
        ctx.evaluation()
        if any("trajectory_reassigned_from" in p_ for p_ in spec["pps"]):
            ctx.feature("trajectory-reassigned-with-other-kind")
        for k in kinds:
            ctx.feature("kind." + k)
        if len(kinds) > 1:
            ctx.feature("cooperative")
        ctx.feature("meta.date." + spec["date_kind"])
        for k in ("processor_name", "computation_time"):
            if k in spec["meta"]:
                ctx.feature("meta." + k)
                if type(spec["meta"][k]).__module__ == "numpy":
                    ctx.feature("meta.%s.numpy-scalar" % k)
        shuffled = any([t for t, _ in p["states"]] != sorted(t for t, _ in p["states"]) for p in spec["pps"])
        if shuffled:
            ctx.feature("non-ascending-input")
        ctx.fingerprint([kinds, [(p["model"], p["vtype"], p["cost"], len(p["states"])) for p in spec["pps"]],
                         sorted(spec["meta"]), spec["date_kind"], shuffled])
        if i in (0, 20, 40):
            ctx.sample({"kinds": kinds, "meta": spec["meta"], "first_state": spec["pps"][0]["states"][0]})
        pretty = rng.random() < 0.6
        ctx.feature("pretty" if pretty else "not-pretty")
        cls = "+".join(sorted(set(kinds)))
        try:
            xml = CommonRoadSolutionWriter(sol).dump(pretty=pretty)
        except Exception as e:  # noqa
            ctx.violation("C14/dump/raises-%s" % type(e).__name__, "kinds %s: %r" % (kinds, e), spec)
            continue
        route = "string"
        try:
            if rng.random() < 0.25:
                route = "file"
                ctx.feature("file-route")
                fn = "sol_%d_%d.xml" % (os.getpid(), i)
                CommonRoadSolutionWriter(sol).write_to_file(tmpdir, fn, overwrite=True, pretty=pretty)
                back = CommonRoadSolutionReader.open(os.path.join(tmpdir, fn))
                os.remove(os.path.join(tmpdir, fn))
            else:
                back = CommonRoadSolutionReader.fromstring(xml)
        except Exception as e:  # noqa
            kk = "KST" if "KST" in kinds else "non-KST"
            ctx.violation("C14/read-back/raises-%s/%s-route/%s/%s" % (
                type(e).__name__, route, "pretty" if pretty else "not-pretty", kk),
                "kinds %s (%s): %r" % (kinds, route, e), spec)
            back = None
        if back is not None:
            compare(ctx, sol, back, spec)
        # schema
        if all(k in G.SCHEMA_ORDER for k in kinds) and \
                [G.SCHEMA_ORDER.index(k) for k in kinds] == sorted(G.SCHEMA_ORDER.index(k) for k in kinds):
            ctx.feature("xsd.validated")
            doc = le.fromstring(xml if isinstance(xml, bytes) else xml.encode("utf-8"))
            if not schema.validate(doc):
                err = schema.error_log[0]
                ctx.violation("C14/xsd/%s/%s" % (err.type_name, _path(err.path)), "%s (kinds %s)" % (err.message, kinds),
                              {"kinds": kinds, "meta": spec["meta"], "error": err.message})


def _path(p):
    import re
    return re.sub(r"\[\d+\]", "", p or "")


def compare(ctx, sol, back, spec):
    v = lambda key, msg: ctx.violation("C14/round-trip/" + key, msg, {"meta": spec["meta"], "kinds": [p["kind"] for p in spec["pps"]]})  # noqa
    if back.benchmark_id != sol.benchmark_id:
        v("benchmark-id", "%r -> %r" % (sol.benchmark_id, back.benchmark_id))
    if back.planning_problem_ids != [p["pp_id"] for p in spec["pps"]]:
        v("planning-problem-ids", "%r -> %r" % ([p["pp_id"] for p in spec["pps"]], back.planning_problem_ids))
        return
    if [t.name for t in back.trajectory_types] != [p["kind"] for p in spec["pps"]]:
        v("trajectory-types", "%r -> %r" % ([p["kind"] for p in spec["pps"]], back.trajectory_types))
        return
    for p, bp in zip(spec["pps"], back.planning_problem_solutions):
        if (bp.vehicle_model.name, bp.vehicle_type.name, bp.cost_function.name) != (p["model"], p["vtype"], p["cost"]):
            v("model-type-cost", "%r -> %r" % ((p["model"], p["vtype"], p["cost"]), (bp.vehicle_model, bp.vehicle_type,
                                                                                      bp.cost_function)))
        exp = sorted(p["states"], key=lambda s: s[0])
        got = bp.trajectory.state_list
        gt = [s.time_step for s in got]
        if gt != [t for t, _ in exp]:
            v("time-steps/" + p["kind"], "expected %r got %r" % ([t for t, _ in exp], gt))
            continue
        if bp.trajectory.initial_time_step != exp[0][0]:
            v("initial-time-step", "%r vs %r" % (bp.trajectory.initial_time_step, exp[0][0]))
        for (t, vals), st in zip(exp, got):
            if type(st.time_step) is not int:
                v("time-step-type", repr(type(st.time_step)))
            for name, val in vals.items():
                g = getattr(st, name, None)
                if name == "position":
                    ok = g is not None and len(g) == 2 and same(val[0], g[0]) and same(val[1], g[1])
                else:
                    ok = g is not None and same(val, g)
                if not ok:
                    mag = "int" if isinstance(val, int) else "float"
                    v("value/%s/%s/%s" % (p["kind"], name, mag), "t=%d %s: wrote %r read %r" % (t, name, val, g))
            extra = set(st.used_attributes) - set(vals) - {"time_step"}
            if extra:
                v("extra-attributes/" + p["kind"], repr(extra))
    m = spec["meta"]
    ct = m.get("computation_time")
    if (ct is None) != (back.computation_time is None) or (ct is not None and not same(ct, back.computation_time)):
        v("computation-time", "%r -> %r" % (ct, back.computation_time))
    if m.get("processor_name") != back.processor_name:
        v("processor-name", "%r -> %r" % (m.get("processor_name"), back.processor_name))
    d = sol.date
    if "date" in m:
        # the date that was GIVEN (None: a solution without date), not whatever the object made of it
        import datetime as _dt
        d = None if m["date"] is None else _dt.datetime.fromisoformat(m["date"])
    if (d is None) != (back.date is None) or (d is not None and d.replace(microsecond=0) != back.date):
        v("date/" + spec["date_kind"], "%r -> %r" % (d, back.date))
