"""Shared driver of the round-trip checks C01 (XML), C02 (protobuf) and C03 (XML schema validity)."""
import glob
import os


def fixtures(repo):
    d = os.path.join(repo, "tests", "test_scenarios")
    return sorted(glob.glob(os.path.join(d, "*.xml")) + glob.glob(os.path.join(d, "*.pb")))


def drive(ctx, fmt, n_cases, precisions, hostile=True, fixture_precisions=(), keep_prefix=None, magnitude_stress=False):
    from vf import io, monitors
    from vf.gen.scenarios import ScenarioGen
    from vf.monitors import roundtrip
    monitors.set_sink(ctx)
    roundtrip.install()
    prop = {"xml": "C01", "pb": "C02"}[fmt] if keep_prefix is None else keep_prefix
    for i, rng in ctx.cases("generated", n_cases):
        defaults = fmt == "pb" and i % 4 == 3
        try:
            sc, pps = ScenarioGen(rng, i, fmt, hostile=hostile, ctx=ctx, defaults=defaults, three_d=(i % 6 == 5)).build()
        except Exception as e:  # noqa
            import traceback
            ctx.violation("%s/harness/generator-raises-%s" % (prop, type(e).__name__), traceback.format_exc()[-600:], {"i": i})
            continue
        if fmt == "pb" and defaults:
            # a light whose cycle object exists but has no elements yet (TrafficLightCycle() with its constructor defaults):
            # the format distinguishes it from a light without cycle
            try:
                import numpy as _np
                from commonroad.scenario.traffic_light import TrafficLight, TrafficLightCycle
                lid_ = sc.lanelet_network.lanelets[0].lanelet_id
                sc.add_objects(TrafficLight(sc.generate_object_id(), _np.array([3.0, 4.0]), TrafficLightCycle()), {lid_})
                ctx.feature("light.cycle-without-elements")
            except Exception as e:  # noqa
                ctx.violation("%s/harness/empty-cycle-light-%s" % (prop, type(e).__name__), repr(e)[:200], {"i": i})
        ps = precisions(i)
        # header information given to the WRITER overrides the scenario's (author, affiliation, source, tags)
        meta = {}
        if i % 5 == 2:
            from commonroad.scenario.scenario import Tag
            from vf.gen.scenarios import expressible
            pool = [t for t in expressible(Tag, fmt, "tag", "Tag") if t not in (sc.tags or set())]
            if pool:
                meta = {"tags": set(rng.sample(pool, min(len(pool), rng.randint(1, 3)))), "author": "Writer's Author",
                        "affiliation": "Writer's Affiliation", "source": "writer's source"}
                if i % 10 == 2:
                    from commonroad.scenario.scenario import Location
                    meta["location"] = Location(rng.randint(1, 10 ** 6), 12.25, -33.5)
                ctx.feature("writer-header-overrides-scenario")
        for d in ps:
            ctx.evaluation()
            ctx.feature("precision.%d" % d)
            ctx.case_wit = {"case": i, "precision": d, "fmt": fmt}
            try:
                p = io.write(sc, pps, fmt, precision=d, **meta)
            except Exception as e:  # noqa
                import traceback
                tb = traceback.extract_tb(e.__traceback__)
                site = next((f.name for f in reversed(tb) if "commonroad" in f.filename), "?")
                ctx.violation("%s/write/raises-%s/%s" % (prop, type(e).__name__, site), repr(e)[:300],
                              {"case": i, "precision": d})
                continue
            finally:
                ctx.case_wit = None
            if os.path.exists(p):
                os.remove(p)
        if i % 4 == 1:
            # ONE writer object used for several files (full file, scenario-only file, full file again): every file is
            # judged by the same contracts
            ctx.case_wit = {"case": i, "fmt": fmt, "route": "one-writer-several-files"}
            try:
                from commonroad.common.file_writer import CommonRoadFileWriter, OverwriteExistingFile
                from commonroad.common.util import FileFormat
                w = CommonRoadFileWriter(sc, pps, author=sc.author or "a", affiliation=sc.affiliation or "b",
                                         source=sc.source or "c", tags=sc.tags, decimal_precision=ps[0],
                                         file_format=FileFormat.XML if fmt == "xml" else FileFormat.PROTOBUF)
                ctx.feature("one-writer-several-files")
                import contextlib
                import io as _io
                for k_, meth in enumerate(("write_to_file", "write_scenario_to_file", "write_to_file")):
                    if k_ == 2 and i % 6 != 5:  # (3-D scenarios cannot be moved)
                        # the scenario is edited between two writes of the same writer (moved as a whole): the next file
                        # shows the scenario as it is now
                        import numpy as _np
                        sc.translate_rotate(_np.array([2.0, 1.0]), 0.0)
                        ctx.feature("one-writer.scenario-edited-between-writes")
                    pth = io.tmpfile(".%s" % ("xml" if fmt == "xml" else "pb"))
                    ctx.evaluation()
                    with contextlib.redirect_stdout(_io.StringIO()):
                        getattr(w, meth)(pth, OverwriteExistingFile.ALWAYS)
                    if os.path.exists(pth):
                        os.remove(pth)
            except Exception as e:  # noqa
                ctx.violation("%s/write/raises-%s/one-writer-several-files" % (prop, type(e).__name__), repr(e)[:300],
                              {"case": i})
            finally:
                ctx.case_wit = None
        if i % 4 == 0:
            # a write that FAILS half-way (the target directory does not exist yet: the document is built, the file cannot be
            # opened), the user creates the directory and calls the SAME writer again: the second file is judged like any other
            ctx.case_wit = {"case": i, "fmt": fmt, "route": "retry-after-failed-write"}
            try:
                from commonroad.common.file_writer import CommonRoadFileWriter, OverwriteExistingFile
                from commonroad.common.util import FileFormat
                import contextlib
                import io as _io
                import shutil
                w = CommonRoadFileWriter(sc, pps, author=sc.author or "a", affiliation=sc.affiliation or "b",
                                         source=sc.source or "c", tags=sc.tags, decimal_precision=ps[0],
                                         file_format=FileFormat.XML if fmt == "xml" else FileFormat.PROTOBUF)
                base = io.tmpfile(".dir")
                pth = os.path.join(base, "out.%s" % ("xml" if fmt == "xml" else "pb"))
                meth = ("write_to_file", "write_scenario_to_file")[(i // 4) % 2]
                failed = False
                try:
                    with contextlib.redirect_stdout(_io.StringIO()):
                        getattr(w, meth)(pth, OverwriteExistingFile.ALWAYS)
                except OSError:
                    failed = True
                if failed:
                    ctx.feature("retry-after-failed-write")
                    os.makedirs(base)
                    try:
                        ctx.evaluation()
                        with contextlib.redirect_stdout(_io.StringIO()):
                            w.write_to_file(pth, OverwriteExistingFile.ALWAYS)
                    finally:
                        shutil.rmtree(base, ignore_errors=True)
            except Exception as e:  # noqa
                ctx.violation("%s/write/raises-%s/retry-after-failed-write" % (prop, type(e).__name__), repr(e)[:300],
                              {"case": i})
            finally:
                ctx.case_wit = None
        if i % 4 == 2 and fmt == "xml":
            # two writers of different decimal precision exist side by side; the coarse one writes first, then the fine one
            # (no writer is constructed in between): each file has the precision of ITS writer
            ctx.case_wit = {"case": i, "fmt": fmt, "route": "coarse-writer-writes-first"}
            try:
                from commonroad.common.file_writer import CommonRoadFileWriter, OverwriteExistingFile
                from commonroad.common.util import FileFormat
                import contextlib
                import io as _io
                kw_ = dict(author=sc.author or "a", affiliation=sc.affiliation or "b", source=sc.source or "c", tags=sc.tags,
                           file_format=FileFormat.XML)
                fine = CommonRoadFileWriter(sc, pps, decimal_precision=max(max(ps), 8), **kw_)
                coarse = CommonRoadFileWriter(sc, pps, decimal_precision=1, **kw_)
                ctx.feature("coarse-writer-writes-first")
                for w_ in (coarse, fine, coarse):
                    pth = io.tmpfile(".xml")
                    ctx.evaluation()
                    with contextlib.redirect_stdout(_io.StringIO()):
                        w_.write_to_file(pth, OverwriteExistingFile.ALWAYS)
                    if os.path.exists(pth):
                        os.remove(pth)
            except Exception as e:  # noqa
                ctx.violation("%s/write/raises-%s/coarse-writer-writes-first" % (prop, type(e).__name__), repr(e)[:300],
                              {"case": i})
            finally:
                ctx.case_wit = None
        from vf.oracle import structure as S
        snap = S.snap_scenario(sc, header=False)
        ctx.fingerprint([fmt, sorted(snap["lanelets"]), sorted((k, v["role"]) for k, v in snap["obstacles"].items()),
                         sorted(snap["signs"]), sorted(snap["lights"]), i])
        if i < 2:
            ctx.sample({"case": i, "fmt": fmt, "lanelets": len(snap["lanelets"]), "signs": len(snap["signs"]),
                        "lights": len(snap["lights"]), "intersections": len(snap["intersections"]),
                        "obstacles": {k: v["role"] for k, v in snap["obstacles"].items()},
                        "planning_problems": len(pps.planning_problem_dict), "precisions": list(ps)})
    # ---- real inputs: fixture files re-written at several precisions
    files = fixtures(os.environ.get("VERIF_REPO", "/repo"))
    for j, rng in ctx.cases("fixtures", len(files)):
        if not fixture_precisions:
            break
        try:
            sc, pps = io.read(files[j])
        except Exception:  # noqa  (reading fixtures is the test-suite's business)
            continue
        if sc.scenario_id.scenario_version != "2020a" or sc.tags is None:
            continue
        if any(la.left_vertices.shape[1] != 2 for la in sc.lanelet_network.lanelets):
            ctx.counter("fixture-skipped-3d")
            continue  # the properties quantify over 2-D scenarios
        if fmt == "xml":
            # only fixtures that are themselves schema-valid XML files are known to be schema-expressible
            if not files[j].endswith(".xml"):
                continue
            import lxml.etree as le
            try:
                if not roundtrip.schema().validate(le.parse(files[j])):
                    continue
            except Exception:  # noqa
                continue
            # the reader maps sign '274' to the country's MAX_SPEED member, whose value the schema may not list
            from vf.gen.scenarios import sign_members
            ok_ids = set(sign_members(sc.scenario_id.country_id, "xml")) if sc.scenario_id.country_id in [
                c.value for c in __import__("commonroad.scenario.traffic_sign", fromlist=["x"]).SupportedTrafficSignCountry] \
                else set(sign_members("ZAM", "xml"))
            if any(e.traffic_sign_element_id not in ok_ids for s_ in sc.lanelet_network.traffic_signs
                   for e in s_.traffic_sign_elements):
                ctx.counter("fixture-not-schema-expressible(sign id)")
                continue
        ctx.feature("fixture-file")
        for d in fixture_precisions:
            ctx.evaluation()
            ctx.case_wit = {"fixture": os.path.basename(files[j]), "precision": d, "fmt": fmt}
            try:
                p = io.write(sc, pps, fmt, precision=d)
                os.remove(p)
            except Exception as e:  # noqa
                if fmt == "pb" and "has no value defined for name" in str(e):
                    ctx.counter("fixture-not-expressible-in-proto-enums")
                    break
                ctx.violation("%s/write-fixture/raises-%s" % (prop, type(e).__name__), repr(e)[:300],
                              {"fixture": os.path.basename(files[j])})
            finally:
                ctx.case_wit = None
