"""C11 — derived data never goes stale under mutation.

History + 'fresh rebuild' reference model: after every step of a query/mutate history the same battery of queries is
asked of the mutated object and of an object rebuilt through the public constructors from the mutated object's
current primary data; answers must agree. update_initial_state is checked against a list model."""
import copy
import itertools
import math
import warnings

CLAIM = True
RULE = ("object kinds: dynamic obstacle with trajectory prediction, static obstacle, lanelet, lanelet network (also "
        "inside a scenario), traffic-light cycle / traffic light; per kind an alphabet of queries (occupancy / state at "
        "a time step, occupancy_set, polygon, distance, lookups by position and shape, light state) and public mutators "
        "(translate_rotate on obstacle / prediction / trajectory / network / scenario level, prediction=, "
        "update_prediction, prediction.trajectory=, prediction.shape=, update_initial_state, add_lanelet, "
        "remove_lanelet, cycle_elements=, in-place element edits, time_offset=); exhaustive over all sequences up to "
        "length 2 (quick) / 3 (thorough) per kind, random sequences of length <= 14; caches are populated before being "
        "invalidated by construction (every step ends with the full query battery). distinct = (kind, operation "
        "sequence, seed); non-trivial = contains a mutator after a query")
ANCHORS = ["TrajectoryPrediction.occupancy_set", "TrajectoryPrediction._invalidate_occupancy_set",
           "TrajectoryPrediction.translate_rotate", "DynamicObstacle.update_initial_state",
           "DynamicObstacle.update_prediction", "LaneletNetwork.translate_rotate", "LaneletNetwork._create_strtree",
           "LaneletNetwork.add_lanelet", "LaneletNetwork.remove_lanelet", "TrafficLightCycle.cycle_init_timesteps",
           "Lanelet.translate_rotate"]
REQUIRED = ["remove_lanelet-list.member-then-foreign", "remove_lanelet-list.member-named-twice", "lanelet.curved", "network.has-a-curved-lanelet", "kind.dynamic", "kind.static", "kind.lanelet", "kind.network", "kind.scenario", "kind.cycle",
            "op.obstacle.translate_rotate", "op.prediction.translate_rotate", "op.trajectory.translate_rotate",
            "op.prediction=", "op.update_prediction", "op.trajectory=", "op.shape=", "op.update_initial_state",
            "op.network.translate_rotate", "op.add_lanelet", "op.remove_lanelet", "op.scenario.translate_rotate",
            "op.trajectory.append_state", "op.cycle_elements=", "op.element-edit", "op.time_offset=", "history-model-checked",
            "op.add_lanelet-deferred", "op.remove_lanelet-deferred", "op.lanelet.translate_rotate",
            "network.built-without-index", "op.merge.disjoint", "op.merge.new-then-duplicate", "op.merge.duplicate-first",
            "op.lanelet.convert_to_2d", "static.move-creeping", "dynamic.shape-off-centre", "lanelet.stop-line-point-less",
            "lanelet.stop-line-with-points"]
EXHAUSTIVE = {"quick": "per object kind: all mutator sequences of length <= 2 (each step followed by the full query battery)",
              "thorough": "per object kind: all mutator sequences of length <= 3"}
ASSUMPTIONS = ["direct assignment to vertices or shape parameters is not in the statement's mutator list",
               "answers are compared with tolerance 1e-9 (occupancies as vertex rings)"]
SHARDS = {"quick": 4, "thorough": 16}


def run(ctx):
    warnings.simplefilter("ignore")
    import numpy as np
    import commonroad.scenario.state as st
    from commonroad.geometry.shape import Circle, Rectangle
    from commonroad.prediction.prediction import TrajectoryPrediction
    from commonroad.scenario.lanelet import Lanelet, LaneletNetwork
    from commonroad.scenario.obstacle import DynamicObstacle, ObstacleType, StaticObstacle
    from commonroad.scenario.scenario import Scenario
    from commonroad.scenario.traffic_light import (TrafficLight, TrafficLightCycle, TrafficLightCycleElement,
                                                   TrafficLightState)
    from commonroad.scenario.trajectory import Trajectory
    from vf.gen import lattice
    from vf.gen.objects import Gen
    from vf.oracle import geom

    def exported(shape):
        """what the shape EXPORTS (vertex ring / planar geometry bounds), besides its parameters"""
        out = []
        for m_ in (shape.shapes if hasattr(shape, "shapes") else [shape]):
            v_ = getattr(m_, "vertices", None)
            out.append(None if v_ is None else [(float(x_), float(y_)) for x_, y_ in np.asarray(v_)[:, :2]])
            so = getattr(m_, "shapely_object", None)
            out.append(None if so is None else tuple(float(b_) for b_ in so.bounds))
        return out

    def occ_desc(o):
        return None if o is None else (o.time_step if isinstance(o.time_step, int) else (o.time_step.start, o.time_step.end),
                                       geom.describe(o.shape), exported(o.shape))

    def same_exported(a, b):
        if len(a) != len(b):
            return False
        for x_, y_ in zip(a, b):
            if (x_ is None) != (y_ is None):
                return False
            if x_ is None:
                continue
            xa, ya = np.asarray(x_, dtype=float), np.asarray(y_, dtype=float)
            if xa.shape != ya.shape or np.abs(xa - ya).max() > 1e-7 * (1 + np.abs(xa).max()):
                return False
        return True

    def same_occ(a, b):
        if a is None or b is None:
            return a is None and b is None
        return a[0] == b[0] and geom.desc_equal(a[1], b[1], 1e-9) and same_exported(a[2], b[2])

    def same_state(a, b):
        if a is None or b is None:
            return a is None and b is None
        if a.time_step != b.time_step or set(a.used_attributes) != set(b.used_attributes):
            return False
        for k in a.used_attributes:
            x, y = getattr(a, k), getattr(b, k)
            if isinstance(x, np.ndarray):
                if np.abs(x - y).max() > 1e-9 * (1 + np.abs(x).max()):
                    return False
            elif isinstance(x, (int, float)):
                if abs(x - y) > 1e-9 * (1 + abs(x)):
                    return False
        return True

    # ------------------------------------------------------------------------------------------- dynamic obstacle
    def mk_traj(rng, G, t0, n):
        return Trajectory(t0, [st.KSState(time_step=t0 + k, position=np.array([10.0 * k + rng.uniform(0, 3), rng.uniform(-5, 5)]),
                                          orientation=rng.uniform(-3, 3), velocity=5.0, steering_angle=0.0)
                               for k in range(n)])

    def fresh_shape(s_):
        """a NEW shape object built from the parameters (nothing a used shape object may have computed comes along)"""
        from commonroad.geometry.shape import Polygon, ShapeGroup
        n_ = type(s_).__name__
        if n_ == "Rectangle":
            return Rectangle(float(s_.length), float(s_.width), np.array(s_.center, dtype=float), float(s_.orientation))
        if n_ == "Circle":
            return Circle(float(s_.radius), np.array(s_.center, dtype=float))
        if n_ == "Polygon":
            return Polygon(np.array(s_.vertices, dtype=float)[:-1] if np.allclose(s_.vertices[0], s_.vertices[-1]) else
                           np.array(s_.vertices, dtype=float))
        if n_ == "ShapeGroup":
            return ShapeGroup([fresh_shape(m_) for m_ in s_.shapes])
        return copy.deepcopy(s_)

    def rebuild_dynamic(ob):
        p = ob.prediction
        if isinstance(p, TrajectoryPrediction):
            p2 = TrajectoryPrediction(Trajectory(p.trajectory.initial_time_step, list(p.trajectory.state_list)),
                                      fresh_shape(p.shape))
        else:
            p2 = copy.deepcopy(p)
        return DynamicObstacle(ob.obstacle_id, ob.obstacle_type, fresh_shape(ob.obstacle_shape), ob.initial_state, p2)

    def query_dynamic(ob):
        ts = range(ob.initial_state.time_step - 1, ob.initial_state.time_step + 8)
        out = {"occ": [occ_desc(ob.occupancy_at_time(t)) for t in ts], "state": [ob.state_at_time(t) for t in ts]}
        if isinstance(ob.prediction, TrajectoryPrediction):
            out["occset"] = [occ_desc(o) for o in ob.prediction.occupancy_set]
            out["pred_occ"] = [occ_desc(ob.prediction.occupancy_at_time_step(t)) for t in ts]
        return out

    def cmp_dynamic(a, b):
        bad = []
        for k in a:
            if k not in b or len(a[k]) != len(b[k]):
                bad.append(k)
                continue
            for x, y in zip(a[k], b[k]):
                ok = same_state(x, y) if k == "state" else same_occ(x, y)
                if not ok:
                    bad.append(k)
                    break
        return bad

    DYN_OPS = ["obstacle.translate_rotate", "prediction.translate_rotate", "trajectory.translate_rotate", "prediction=",
               "update_prediction", "trajectory=", "shape=", "update_initial_state", "trajectory.append_state"]

    def apply_dynamic(ob, op, rng, G, model):
        t = np.array([rng.uniform(-20, 20), rng.uniform(-20, 20)])
        a = rng.choice([0.3, -1.2, math.pi / 2, 2.5])
        tp = isinstance(ob.prediction, TrajectoryPrediction)
        if op == "obstacle.translate_rotate":
            ob.translate_rotate(t, a)
        elif op == "prediction.translate_rotate":
            if ob.prediction is None:
                return False
            ob.prediction.translate_rotate(t, a)
        elif op == "trajectory.translate_rotate":
            if not tp:
                return False
            ob.prediction.trajectory.translate_rotate(t, a)
        elif op == "prediction=":
            ob.prediction = TrajectoryPrediction(mk_traj(rng, G, ob.initial_state.time_step + 1, rng.randint(1, 4)),
                                                 ob.obstacle_shape)
        elif op == "update_prediction":
            ob.update_prediction(TrajectoryPrediction(mk_traj(rng, G, ob.initial_state.time_step + 1, rng.randint(1, 4)),
                                                      Rectangle(3.0, 1.5)))
        elif op == "trajectory=":
            if not tp:
                return False
            ob.prediction.trajectory = mk_traj(rng, G, ob.initial_state.time_step + 1, rng.randint(1, 5))
        elif op == "shape=":
            if not tp:
                return False
            ob.prediction.shape = rng.choice([Rectangle(rng.choice([2.0, 6.0]), 1.0), Circle(rng.choice([0.75, 1.5]))])
        elif op == "trajectory.append_state":
            # the trajectory grows in place through its public method (same list object, one state more)
            if not tp:
                return False
            tr_ = ob.prediction.trajectory
            last = tr_.final_state
            tr_.append_state(st.KSState(time_step=last.time_step + 1, position=np.array(
                [float(last.position[0]) + rng.uniform(1, 9), rng.uniform(-5, 5)]), orientation=rng.uniform(-3, 3),
                velocity=5.0, steering_angle=0.0))
        elif op == "update_initial_state":
            new = st.InitialState(time_step=ob.initial_state.time_step + 1, position=np.array(
                [rng.uniform(-30, 30), rng.uniform(-30, 30)]), orientation=rng.uniform(-3, 3), velocity=2.0)
            mh = rng.choice([1, 2, 3, 6000, 2])
            sig = st.SignalState(time_step=new.time_step, horn=rng.random() < 0.5)
            cl, sl = {rng.randint(1, 5)}, {rng.randint(1, 5)}
            model["history"].append((ob.initial_state, ob.initial_signal_state, ob.initial_center_lanelet_ids,
                                     ob.initial_shape_lanelet_ids))
            ob.update_initial_state(new, sig, cl, sl, max_history_length=mh)
            model["history"] = model["history"][-mh:]
            model["last_mh"] = mh
        return True

    def check_history(ob, model, wit, opseq):
        if "last_mh" not in model:
            return
        ctx.feature("history-model-checked")
        lens = {len(ob.history), len(ob.signal_history), len(ob.center_lanelet_ids_history), len(ob.shape_lanelet_ids_history)}
        if len(lens) != 1:
            ctx.violation("C11/update_initial_state/history-lists-of-unequal-length", repr(sorted(lens)), wit)
            return
        exp = model["history"]
        if len(ob.history) != len(exp):
            ctx.violation("C11/update_initial_state/history-length-wrong",
                          "length %d, expected min(n, max_history_length=%d) = %d" % (len(ob.history), model["last_mh"],
                                                                                    len(exp)), wit)
            return
        for (s, sg, c, sh), hs, hsg, hc, hsh in zip(exp, ob.history, ob.signal_history, ob.center_lanelet_ids_history,
                                                    ob.shape_lanelet_ids_history):
            if hs is not s or hsg is not sg or hc is not c or hsh is not sh:
                ctx.violation("C11/update_initial_state/history-content-or-order-wrong",
                              "time steps %s expected %s" % ([x.time_step for x in ob.history], [x[0].time_step for x in exp]),
                              wit)
                return

    def run_dynamic(rng, ops, tag):
        G = Gen(rng)
        # (a rectangle whose reference point is not its centre: the rear axle of a car; an off-centre circle)
        shape = rng.choice([Rectangle(4.5, 1.8), Circle(1.0), G.polygon(at_origin=True),
                            Rectangle(4.5, 1.8, np.array([1.3, 0.0]), 0.0), Circle(1.0, np.array([0.0, 0.7]))])
        _ = shape.shapely_object, getattr(shape, "vertices", None), shape.contains_point(np.array([0.0, 0.0]))
        ctx.feature("dynamic.shape-off-centre" if np.abs(np.asarray(shape.center)).max() > 0.5 else "dynamic.shape-centred")
        init = st.InitialState(time_step=0, position=np.array([rng.uniform(-5, 5), rng.uniform(-5, 5)]),
                               orientation=rng.uniform(-3, 3), velocity=3.0)
        ob = DynamicObstacle(7, ObstacleType.CAR, shape, init, TrajectoryPrediction(mk_traj(rng, G, 1, 4), shape))
        if rng.random() < 0.3:
            ob.history = [st.InitialState(time_step=-3 + k, position=np.array([0.0, float(k)]), orientation=0.0)
                          for k in range(3)]
            ob.signal_history = [None, None, None]
            ob.center_lanelet_ids_history = [None, None, None]
            ob.shape_lanelet_ids_history = [None, None, None]
        model = {"history": [(h, s, c, sh) for h, s, c, sh in zip(ob.history, ob.signal_history,
                                                                  ob.center_lanelet_ids_history,
                                                                  ob.shape_lanelet_ids_history)]}
        query_dynamic(ob)  # populate the caches
        done = []
        for op in ops:
            try:
                if not apply_dynamic(ob, op, rng, G, model):
                    continue
            except Exception as e:  # noqa
                ctx.violation("C11/dynamic/%s/raises-%s" % (op, type(e).__name__), repr(e)[:200], {"ops": done + [op]})
                return
            done.append(op)
            ctx.feature("op." + op)
            ctx.evaluation()
            wit = {"kind": "dynamic", "ops": list(done), "shape": type(shape).__name__}
            try:
                bad = cmp_dynamic(query_dynamic(ob), query_dynamic(rebuild_dynamic(ob)))
            except Exception as e:  # noqa
                ctx.violation("C11/dynamic/query-raises-%s/after-%s" % (type(e).__name__, op), repr(e)[:200], wit)
                return
            for k in bad:
                ctx.violation("C11/dynamic/stale-%s/after-%s" % (k, op),
                              "query %s on the mutated obstacle differs from a freshly rebuilt one" % k, wit)
            check_history(ob, model, wit, done)
            if bad:
                return

    # ------------------------------------------------------------------------------------------------ static
    def run_static(rng, n):
        G = Gen(rng)
        ob = StaticObstacle(3, ObstacleType.PARKED_VEHICLE, rng.choice([Rectangle(4.0, 2.0), Circle(1.5),
                                                                        G.polygon(at_origin=True)]),
                            st.InitialState(time_step=0, position=np.array(rng.choice([[1.0, 2.0], [8396.0, 2310.0],
                                                                                       [-654321.5, 5400321.25]])),
                                            orientation=0.4))
        ob.occupancy_at_time(0)
        for k in range(n):
            # large moves and creeping ones (centimetres, far away from the origin these are tiny RELATIVE changes)
            tr_, an_ = rng.choice([((rng.uniform(-9, 9), rng.uniform(-9, 9)), rng.choice([0.7, -2.0, 0.01])),
                                   ((0.05, 0.02), 0.0), ((0.002, -0.001), 0.0), ((0.0, 0.0), 1e-4)])
            ob.translate_rotate(np.array(tr_), an_)
            ctx.feature("static.move-" + ("large" if abs(tr_[0]) > 0.1 or an_ > 0.001 or an_ < 0 else "creeping"))
            ctx.evaluation()
            fresh = StaticObstacle(3, ob.obstacle_type, ob.obstacle_shape, ob.initial_state)
            if not same_occ(occ_desc(ob.occupancy_at_time(5)), occ_desc(fresh.occupancy_at_time(5))):
                ctx.violation("C11/static/stale-occupancy/after-translate_rotate", "step %d" % k, {"kind": "static"})
                return

    # ------------------------------------------------------------------------------------ lanelet / network / scenario
    def fresh_net(net):
        ls = []
        for la in net.lanelets:
            ls.append(Lanelet(la.left_vertices.copy(), la.center_vertices.copy(), la.right_vertices.copy(), la.lanelet_id))
        return LaneletNetwork.create_from_lanelet_list(ls, cleanup_ids=False)

    def probes(net, rng):
        pts, shapes = [], []
        for la in net.lanelets:
            c = la.center_vertices[len(la.center_vertices) // 2]
            pts.append(np.array([float(c[0]), float(c[1])]))
            pts.append(np.array([float(c[0]) + 0.3, float(c[1]) - 0.2]))
            shapes.append(Rectangle(1.0, 0.5, np.array([float(c[0]), float(c[1])]), 0.3))
        pts.append(np.array([1e4, 1e4]))
        return pts, shapes

    def query_net(net, pts, shapes):
        return {"position": [sorted(x) for x in net.find_lanelet_by_position(pts)],
                "shape": [sorted(net.find_lanelet_by_shape(s)) for s in shapes],
                "polygon": {la.lanelet_id: geom.open_ring(la.polygon.vertices) for la in net.lanelets},
                "distance": {la.lanelet_id: [float(d) for d in la.distance] for la in net.lanelets}}

    def cmp_net(a, b):
        bad = []
        if a["position"] != b["position"]:
            bad.append("find_lanelet_by_position")
        if a["shape"] != b["shape"]:
            bad.append("find_lanelet_by_shape")
        for lid in a["polygon"]:
            if lid not in b["polygon"] or not geom.rings_equal(a["polygon"][lid], b["polygon"][lid], 1e-9):
                bad.append("lanelet.polygon")
                break
        for lid in a["distance"]:
            x, y = a["distance"][lid], b["distance"].get(lid, [])
            if len(x) != len(y) or any(abs(p - q) > 1e-8 * (1 + abs(p)) for p, q in zip(x, y)):
                bad.append("lanelet.distance")
                break
        return bad

    NET_OPS = ["network.translate_rotate", "add_lanelet", "remove_lanelet", "scenario.translate_rotate",
               "add_lanelet-deferred", "remove_lanelet-deferred", "lanelet.translate_rotate"]

    # bulk addition of another network's lanelets (a duplicate id is rejected with a warning; what was accepted counts)
    MERGE_OPS = ["merge.disjoint", "merge.new-then-duplicate", "merge.duplicate-first"]

    list_variant = [0]

    def run_net(rng, ops, in_scenario, deferred_build=False):
        ghosts = []
        lanelets, _ = lattice.gen_lanelets(rng, nmax=4)
        # one lanelet that follows a curve, far from the others: its boundary segments are shorter / longer than its centre
        # segments, so that distance and inner distance are different numbers
        lanelets.append(lattice.lanelet(950, lattice.arc(300.0, 300.0, 20.0, 4.0)))
        ctx.feature("network.has-a-curved-lanelet")
        if deferred_build and not in_scenario:
            # built lanelet by lanelet WITHOUT an index (rtree=False) and not queried before the first mutation
            net = LaneletNetwork()
            for la_ in lanelets:
                net.add_lanelet(la_, rtree=False)
            ctx.feature("network.built-without-index")
        else:
            net = LaneletNetwork.create_from_lanelet_list(lanelets)
        sc = None
        if in_scenario:
            sc = Scenario(0.1)
            sc.add_objects(net)
            sc.add_objects(StaticObstacle(900, ObstacleType.PARKED_VEHICLE, Rectangle(2.0, 1.0), st.InitialState(
                time_step=0, position=np.array([0.0, 0.0]), orientation=0.0)))
            net = sc.lanelet_network
        if not (deferred_build and not in_scenario):
            pts, shapes = probes(net, rng)
            query_net(net, pts, shapes)
        done = []
        nid = 500
        for op in ops:
            t = np.array([rng.uniform(-30, 30), rng.uniform(-30, 30)])
            a = rng.choice([0.4, -1.0, math.pi / 2])
            try:
                if op == "network.translate_rotate":
                    net.translate_rotate(t, a)
                elif op == "scenario.translate_rotate":
                    if sc is None:
                        continue
                    sc.translate_rotate(t, a)
                elif op == "lanelet.translate_rotate":
                    # "translate_rotate on any level": a member lanelet moved through its own method
                    if deferred_build and not in_scenario and not done:
                        continue  # a network that never built its index cannot be queried at all (documented usage)
                    rng.choice(net.lanelets).translate_rotate(t, a)
                elif op in ("add_lanelet-deferred", "remove_lanelet-deferred"):
                    if sc is not None:
                        continue
                    if op.startswith("add"):
                        nid += 1
                        net.add_lanelet(lattice.lanelet(nid, lattice.strip(rng, lattice.q(rng, -5, 5), lattice.q(rng, -5, 5),
                                                                           3, 2.0, 3.0)), rtree=False)
                    else:
                        if len(net.lanelets) < 2:
                            continue
                        net.remove_lanelet(rng.choice(net.lanelets).lanelet_id, rtree=False)
                    # the deferred operation is completed by the next indexing operation (documented batch usage)
                    nid += 1
                    net.add_lanelet(lattice.lanelet(nid, lattice.strip(rng, 70.0 + nid, 70.0, 2, 2.0, 2.0, wobble=False)))
                elif op in MERGE_OPS:
                    if sc is not None:
                        continue  # (network-level bulk addition would bypass the scenario's id registry)
                    nid += 2
                    fresh_ = [lattice.lanelet(nid - k, lattice.strip(rng, lattice.q(rng, -5, 5), lattice.q(rng, -5, 5), 3, 2.0,
                                                                     3.0)) for k in (0, 1)]
                    old_ = net.lanelets[0]
                    dup = Lanelet(old_.left_vertices.copy(), old_.center_vertices.copy(), old_.right_vertices.copy(),
                                  old_.lanelet_id)
                    order = {"merge.disjoint": fresh_, "merge.new-then-duplicate": [fresh_[0], dup, fresh_[1]],
                             "merge.duplicate-first": [dup] + fresh_}[op]
                    other = LaneletNetwork()
                    for la_ in order:
                        other.add_lanelet(la_)
                    ret = net.add_lanelets_from_network(other)
                    if ret != (op == "merge.disjoint"):
                        ctx.violation("C11/network/%s/unexpected-return" % op, repr(ret), {"ops": done + [op]})
                        return
                elif op == "add_lanelet":
                    nid += 1
                    new = lattice.lanelet(nid, lattice.strip(rng, lattice.q(rng, -5, 5), lattice.q(rng, -5, 5), 3, 2.0, 3.0))
                    (sc.add_objects(new) if sc is not None else net.add_lanelet(new))
                elif op == "remove_lanelet":
                    if len(net.lanelets) < 2:
                        continue
                    victim = rng.choice(net.lanelets)
                    ghosts.append(np.array(victim.center_vertices[len(victim.center_vertices) // 2], dtype=float))
                    (sc.remove_lanelet(victim) if sc is not None else net.remove_lanelet(victim.lanelet_id))
                elif op == "remove_lanelet-list":
                    # the list form on a scenario: two members / a member followed by a lanelet that is not part of the
                    # network (tolerated) / a member named twice
                    if sc is None or len(net.lanelets) < 3:
                        continue
                    a_, b_ = rng.sample(net.lanelets, 2)
                    foreign = lattice.lanelet(7777, lattice.strip(rng, 90.0, 90.0, 2, 2.0, 2.0, wobble=False))
                    variant = list_variant[0] = (list_variant[0] + 1) % 3
                    lst = [[a_, b_], [a_, foreign], [a_, b_, a_]][variant]
                    ctx.feature("remove_lanelet-list." + ["two-members", "member-then-foreign", "member-named-twice"][variant])
                    for v_ in lst:
                        if v_ is not foreign:
                            ghosts.append(np.array(v_.center_vertices[len(v_.center_vertices) // 2], dtype=float))
                    sc.remove_lanelet(lst)
            except Exception as e:  # noqa
                ctx.violation("C11/network/%s/raises-%s" % (op, type(e).__name__), repr(e)[:200], {"ops": done + [op]})
                return
            done.append(op)
            ctx.feature("op." + op)
            ctx.evaluation()
            pts, shapes = probes(net, rng)  # probes follow the CURRENT geometry
            pts = pts + ghosts[-6:]         # ... and visit the places where removed lanelets used to be
            wit = {"kind": "scenario" if in_scenario else "network", "ops": list(done)}
            try:
                bad = cmp_net(query_net(net, pts, shapes), query_net(fresh_net(net), pts, shapes))
            except Exception as e:  # noqa
                ctx.violation("C11/network/query-raises-%s/after-%s" % (type(e).__name__, op), repr(e)[:200], wit)
                return
            for k in bad:
                ctx.violation("C11/network/stale-%s/after-%s" % (k, op),
                              "%s on the mutated network differs from a freshly rebuilt one" % k, wit)
            if bad:
                return

    def run_lanelet_3d(rng):
        """a lanelet with z coordinates, queried, then flattened by the public convert_to_2d"""
        left, center, right = [np.asarray(a, dtype=float) for a in lattice.strip(rng, 0.0, 0.0, 4, 2.0, 3.0)][:3]
        z = np.array([[rng.choice([0.0, 1.5, 4.0, -2.0]) * k] for k in range(len(center))])
        la = Lanelet(np.hstack([left, z]), np.hstack([center, z]), np.hstack([right, z]), 1)
        _ = la.polygon, la.distance, la.inner_distance
        la.convert_to_2d()
        ctx.feature("op.lanelet.convert_to_2d")
        ctx.evaluation()
        fr = Lanelet(la.left_vertices.copy(), la.center_vertices.copy(), la.right_vertices.copy(), 1)
        wit = {"kind": "lanelet-3d", "z": z.ravel().tolist()}
        if la.center_vertices.shape[1] != 2:
            ctx.violation("C11/lanelet/convert_to_2d-keeps-z", repr(la.center_vertices.shape), wit)
            return
        if not geom.rings_equal(geom.open_ring(la.polygon.vertices), geom.open_ring(fr.polygon.vertices), 1e-9):
            ctx.violation("C11/lanelet/stale-polygon/after-convert_to_2d", "polygon differs from a fresh 2-D lanelet", wit)
        if len(la.distance) != len(fr.distance) or np.abs(la.distance - fr.distance).max() > 1e-8 or \
                np.abs(la.inner_distance - fr.inner_distance).max() > 1e-8:
            ctx.violation("C11/lanelet/stale-distance/after-convert_to_2d", "distance %s, fresh 2-D lanelet %s" % (
                la.distance.tolist(), fr.distance.tolist()), wit)

    n_lanelet_runs = [0]

    def run_lanelet(rng, n):
        pl = lattice.strip(rng, 0.0, 0.0, 4, 2.0, 3.0)
        # with / without a stop line; the points of a stop line are optional
        from commonroad.common.common_lanelet import LineMarking, StopLine
        slk = ("none", "with-points", "point-less")[n_lanelet_runs[0] % 3]
        n_lanelet_runs[0] += 1
        kw_sl = {}
        if slk == "with-points":
            kw_sl["stop_line"] = StopLine(np.array(pl[0][-1], dtype=float), np.array(pl[2][-1], dtype=float), LineMarking.SOLID)
        elif slk == "point-less":
            kw_sl["stop_line"] = StopLine(None, None, LineMarking.SOLID)
        ctx.feature("lanelet.stop-line-" + slk)
        if (n_lanelet_runs[0] // 3) % 2 == 1:
            # a lanelet along a quarter circle: the centre line is longer than the inner and shorter than the outer boundary
            pl = lattice.arc(rng.uniform(-5, 5), rng.uniform(-5, 5), rng.choice([12.0, 20.0]), 4.0)
            if "stop_line" in kw_sl and slk == "with-points":
                kw_sl["stop_line"] = StopLine(np.array(pl[0][-1], dtype=float), np.array(pl[2][-1], dtype=float),
                                              LineMarking.SOLID)
            ctx.feature("lanelet.curved")
        la = lattice.lanelet(1, pl, **kw_sl)
        _ = la.polygon, la.distance, la.inner_distance
        L0 = float(la.distance[-1])
        fracs = [0.0, 0.37 * L0, L0 * (1 - 1e-9)]   # the SAME arc lengths before and after every motion
        for s_ in fracs:
            la.interpolate_position(s_)
        for k in range(n):
            la.translate_rotate(np.array([rng.uniform(-9, 9), rng.uniform(-9, 9)]), rng.choice([0.7, -2.0, 0.02]))
            ctx.evaluation()
            fr = Lanelet(la.left_vertices.copy(), la.center_vertices.copy(), la.right_vertices.copy(), 1)
            # the same arc lengths as before the motion (the length does not change under a rigid motion), last one first
            for s_ in fracs[::-1]:
                b_ = fr.interpolate_position(s_)
                try:
                    a_ = la.interpolate_position(s_)
                except Exception as e:  # noqa
                    ctx.violation("C11/lanelet/stale-interpolate_position/after-translate_rotate/raises-%s" % type(e).__name__,
                                  "s=%r is accepted by a fresh lanelet of the same vertices, the moved one raises %s" % (
                                      s_, repr(e)[:160]), {"kind": "lanelet"})
                    return
                if any(np.abs(np.asarray(x_) - np.asarray(y_)).max() > 1e-7 for x_, y_ in zip(a_[:3], b_[:3])) or a_[3] != b_[3]:
                    ctx.violation("C11/lanelet/stale-interpolate_position/after-translate_rotate",
                                  "s=%r: %s on the moved lanelet, %s on a fresh one" % (s_, a_[0], b_[0]), {"kind": "lanelet"})
                    return
            if not geom.rings_equal(geom.open_ring(la.polygon.vertices), geom.open_ring(fr.polygon.vertices), 1e-9):
                ctx.violation("C11/lanelet/stale-polygon/after-translate_rotate", "step %d" % k, {"kind": "lanelet"})
                return
            if np.abs(la.distance - fr.distance).max() > 1e-8 or np.abs(la.inner_distance - fr.inner_distance).max() > 1e-8:
                ctx.violation("C11/lanelet/stale-distance/after-translate_rotate", "step %d" % k, {"kind": "lanelet"})
                return

    # ----------------------------------------------------------------------------------------------- light cycle
    CYC_OPS = ["cycle_elements=", "element-edit", "time_offset=", "light.cycle="]

    def run_cycle(rng, ops):
        S = list(TrafficLightState)
        mk = lambda: [TrafficLightCycleElement(rng.choice(S), rng.randint(1, 5)) for _ in range(rng.randint(1, 4))]  # noqa
        cyc = TrafficLightCycle(mk(), time_offset=rng.choice([0, 2]))
        light = TrafficLight(5, np.array([0.0, 0.0]), cyc)
        ts = list(range(-3, 25))
        [cyc.get_state_at_time_step(t) for t in ts]
        done = []
        for op in ops:
            if op == "cycle_elements=":
                light.traffic_light_cycle.cycle_elements = mk()
            elif op == "element-edit":
                e = rng.choice(light.traffic_light_cycle.cycle_elements)
                if rng.random() < 0.5:
                    e.duration = e.duration + rng.randint(1, 3)
                else:
                    e.state = rng.choice([x for x in S if x != e.state])
            elif op == "time_offset=":
                light.traffic_light_cycle.time_offset = light.traffic_light_cycle.time_offset + rng.randint(1, 4)
            elif op == "light.cycle=":
                light.traffic_light_cycle = TrafficLightCycle(mk(), time_offset=rng.choice([0, 1, 3]))
            done.append(op)
            ctx.feature("op." + op)
            ctx.evaluation()
            c = light.traffic_light_cycle
            fresh = TrafficLightCycle([TrafficLightCycleElement(e.state, e.duration) for e in c.cycle_elements],
                                      time_offset=c.time_offset)
            a = [light.get_state_at_time_step(t) for t in ts]
            b = [fresh.get_state_at_time_step(t) for t in ts]
            if a != b:
                ctx.violation("C11/cycle/stale-state/after-%s" % op, "states differ from a freshly built cycle", {"ops": done})
                return

    # =========================================================================================================
    depth = ctx.pick(2, 3)
    plans = []
    for kind, ops in (("dynamic", DYN_OPS), ("network", NET_OPS[:3] + MERGE_OPS), ("scenario", NET_OPS[:4] + ["remove_lanelet-list"]), ("cycle", CYC_OPS)):
        for d in range(1, depth + 1):
            for seq in itertools.product(ops, repeat=d):
                plans.append((kind, list(seq)))
    for i, rng in ctx.cases("exhaustive", len(plans)):
        kind, seq = plans[i]
        ctx.feature("kind." + kind)
        ctx.fingerprint(["ex", kind, seq])
        if i % 97 == 0:
            ctx.sample({"kind": kind, "mutators": seq, "after_each": "full query battery vs fresh rebuild"})
        if kind == "dynamic":
            run_dynamic(rng, seq, "ex")
        elif kind in ("network", "scenario"):
            run_net(rng, seq, kind == "scenario")
        else:
            run_cycle(rng, seq)
    n = ctx.pick(200, 80000)
    for i, rng in ctx.cases("random", n):
        kind = ["dynamic", "network", "scenario", "cycle", "static", "lanelet"][i % 6]
        ctx.feature("kind." + kind)
        L = rng.randint(3, 14)
        if kind == "dynamic":
            seq = [rng.choice(DYN_OPS) for _ in range(L)]
            run_dynamic(rng, seq, "rnd")
        elif kind in ("network", "scenario"):
            seq = [rng.choice((NET_OPS[:6] if i % 4 else NET_OPS) + MERGE_OPS) for _ in range(L)]
            run_net(rng, seq, kind == "scenario", deferred_build=(i % 3 == 1))
        elif kind == "cycle":
            seq = [rng.choice(CYC_OPS) for _ in range(L)]
            run_cycle(rng, seq)
        elif kind == "static":
            seq = ["translate_rotate"] * 3
            run_static(rng, 6)
        else:
            seq = ["translate_rotate"] * 3
            run_lanelet(rng, 3)
            run_lanelet_3d(rng)
        ctx.fingerprint(["rnd", kind, seq, i])
