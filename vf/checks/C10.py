"""C10 — removing or cutting out network elements leaves no dangling references.

After every step of a removal / cut-out history a reference walker collects every id-valued attribute in the categories
of the statement and asserts that it resolves; a pre-step snapshot gives the expectation for everything else (relations
between survivors, untouched elements, which signs/lights go with a lanelet)."""
import copy
import warnings

CLAIM = True
RULE = ("well-formed lattice networks (3..7 lanelets with mutual pred/succ/adjacency, 1..3 signs and lights shared by "
        "several lanelets, stop lines referring to a subset of their lanelet's signs/lights, 0..2 intersections whose "
        "incomings/successors/crossings span kept and removed lanelets) x histories (<=6 steps) of "
        "Scenario.remove_lanelet (single/list, referenced_elements True/False), LaneletNetwork.remove_lanelet / "
        "remove_traffic_sign / remove_traffic_light / remove_intersection, Scenario.remove_traffic_sign / _light / "
        "_intersection and cut-outs create_from_lanelet_network(shape | excluded types | both | none), "
        "create_from_lanelet_list(cleanup_ids=True). distinct = (network fingerprint, history); non-trivial = removes "
        "at least one referenced element")
ANCHORS = ["LaneletNetwork.cleanup_lanelet_references", "LaneletNetwork.cleanup_traffic_sign_references",
           "LaneletNetwork.cleanup_traffic_light_references", "LaneletNetwork.remove_lanelet",
           "LaneletNetwork.remove_traffic_sign", "LaneletNetwork.remove_traffic_light",
           "LaneletNetwork.remove_intersection", "LaneletNetwork.create_from_lanelet_network",
           "LaneletNetwork.create_from_lanelet_list", "Scenario.remove_lanelet",
           "Scenario.remove_hanging_lanelet_members"]
REQUIRED = ["op.scenario.remove_lanelet-in-two-calls", "op.scenario.remove_lanelet-in-two-calls-list", "op.scenario.remove_lanelet", "op.scenario.remove_lanelet-list", "op.scenario.remove_lanelet-noref",
            "op.network.remove_lanelet", "op.network.remove_traffic_sign", "op.network.remove_traffic_light",
            "op.network.remove_intersection", "op.scenario.remove_traffic_sign", "op.scenario.remove_traffic_light",
            "op.scenario.remove_intersection", "op.cutout.shape", "op.cutout.types", "op.cutout.both",
            "op.cutout.list", "removed-lanelet-was-referenced-by-intersection", "removed-lanelet-had-shared-sign",
            "removed-sign-was-in-stop-line", "crossing-removed",
            "incoming-relation-between-survivors.successors_right", "incoming-relation-between-survivors.successors_left",
            "cutout-shape.group", "cutout-shape.polygon", "cutout-after-deferred-add",
            "removal-after-cutout.other-network-rechecked.source", "removal-after-cutout.other-network-rechecked.cut-out",
            "removal-after-cutout.via-network.remove_lanelet", "removal-after-cutout.via-scenario.remove_lanelet",
            "complete-copy-compared-with-source"]
ASSUMPTIONS = ["'left_of' between incomings, first occurrences of signs and areas are not in the statement's list",
               "for cut-outs the statement does not fix which incoming elements survive; only their content is judged"]
SHARDS = {"quick": 4, "thorough": 16}


def _forget(sc, i):
    """network-level removals bypass the scenario's id registry; keep the harness scenario usable (best effort, the
    registry is not judged here)"""
    reg = getattr(sc, "_id_set", None)
    if isinstance(reg, set):
        reg.discard(i)


def gen_network(rng):
    import numpy as np
    from commonroad.common.common_lanelet import LaneletType, LineMarking, StopLine
    from commonroad.scenario.intersection import Intersection, IntersectionIncomingElement
    from commonroad.scenario.lanelet import LaneletNetwork
    from commonroad.scenario.traffic_light import TrafficLight, TrafficLightCycle, TrafficLightCycleElement, \
        TrafficLightState
    from commonroad.scenario.traffic_sign import TrafficSign, TrafficSignElement, TrafficSignIDZamunda
    from vf.gen import lattice
    n = rng.randint(3, 7)
    ids = list(range(1, n + 1))
    lls = []
    for i in ids:
        pl = lattice.strip(rng, 6.0 * (i % 3) + lattice.q(rng, -1, 1), 5.0 * i, rng.randint(2, 4), 2.0, 3.0, wobble=True)
        kw = {"lanelet_type": set(rng.sample([LaneletType.URBAN, LaneletType.HIGHWAY, LaneletType.SIDEWALK,
                                              LaneletType.CROSSWALK, LaneletType.BUS_LANE], rng.randint(1, 2)))}
        others = [x for x in ids if x != i]
        if rng.random() < 0.3:  # an isolated lanelet (e.g. a crosswalk): referenced by intersections only
            lls.append(lattice.lanelet(i, pl, **kw))
            continue
        kw["predecessor"] = rng.sample(others, rng.randint(0, min(2, len(others))))
        kw["successor"] = rng.sample(others, rng.randint(0, min(2, len(others))))
        if rng.random() < 0.6:
            kw["adjacent_left"], kw["adjacent_left_same_direction"] = rng.choice(others), rng.random() < 0.5
        if rng.random() < 0.6:
            kw["adjacent_right"], kw["adjacent_right_same_direction"] = rng.choice(others), rng.random() < 0.5
        lls.append(lattice.lanelet(i, pl, **kw))
    net = LaneletNetwork()
    for la in lls:
        net.add_lanelet(la)
    nid = 100
    signs, lights = [], []
    for _ in range(rng.randint(1, 3)):
        nid += 1
        on = set(rng.sample(ids, rng.randint(1, min(3, n))))
        # the sign first occurs on one of the lanelets it is valid on (sometimes on none that is recorded)
        first = {rng.choice(sorted(on))} if rng.random() < 0.8 else set()
        net.add_traffic_sign(TrafficSign(nid, [TrafficSignElement(TrafficSignIDZamunda.MAX_SPEED, ["50"])], first,
                                         np.array([0.0, float(nid)])), on)
        signs.append(nid)
    for _ in range(rng.randint(1, 3)):
        nid += 1
        net.add_traffic_light(TrafficLight(nid, np.array([1.0, float(nid)]), TrafficLightCycle(
            [TrafficLightCycleElement(TrafficLightState.RED, 3)])), set(rng.sample(ids, rng.randint(1, min(3, n)))))
        lights.append(nid)
    for la in lls:
        if rng.random() < 0.6:
            sr = set(rng.sample(sorted(la.traffic_signs), rng.randint(0, len(la.traffic_signs))))
            lr = set(rng.sample(sorted(la.traffic_lights), rng.randint(0, len(la.traffic_lights))))
            la.stop_line = StopLine(la.left_vertices[-1], la.right_vertices[-1], LineMarking.SOLID,
                                    sr if sr or rng.random() < 0.5 else None, lr if lr or rng.random() < 0.5 else None)
    for _ in range(rng.randint(0, 2)):
        nid += 1
        incs = []
        for _ in range(rng.randint(1, 3)):
            nid += 1
            incs.append(IntersectionIncomingElement(nid, set(rng.sample(ids, rng.randint(1, 2))),
                                                    set(rng.sample(ids, rng.randint(0, 1))),
                                                    set(rng.sample(ids, rng.randint(0, 2))),
                                                    set(rng.sample(ids, rng.randint(0, 1)))))
        nid += 1
        net.add_intersection(Intersection(nid, incs, set(rng.sample(ids, rng.randint(0, 2)))))
    return net


def snap(net):
    from vf.oracle import structure as S
    out = {"lanelets": {}, "signs": {}, "lights": {}, "intersections": {}}
    for la in net.lanelets:
        d = S.snap_lanelet(la)
        out["lanelets"][la.lanelet_id] = d
    for s in net.traffic_signs:
        out["signs"][s.traffic_sign_id] = S.snap_sign(s, first_occurrence=False)
    for s in net.traffic_lights:
        out["lights"][s.traffic_light_id] = S.snap_light(s)
    for x in net.intersections:
        out["intersections"][x.intersection_id] = S.snap_intersection(x)
        # derived public views of the incoming sets (lanelet id -> incoming element / intersection)
        out.setdefault("derived_maps", {})["intersection %d map_incoming_lanelets" % x.intersection_id] = sorted(
            x.map_incoming_lanelets.keys())
    out.setdefault("derived_maps", {})["network map_inc_lanelets_to_intersections"] = sorted(
        net.map_inc_lanelets_to_intersections.keys())
    return out


def snap_all(net):
    """everything, including what the statement's reference list does not name (first occurrences of signs)"""
    from vf.oracle import structure as S
    out = snap(net)
    for s_ in net.traffic_signs:
        out["signs"][s_.traffic_sign_id] = S.snap_sign(s_, first_occurrence=True)
    return out


REL = ["predecessor", "successor", "traffic_signs", "traffic_lights"]


def _sk(d):
    """snapshot with string keys only (for structure.diff)"""
    if isinstance(d, dict):
        return {str(k): _sk(v) for k, v in d.items()}
    return d


def dangling(s):
    """list of (where, id) references that do not resolve"""
    L, SG, LT = set(s["lanelets"]), set(s["signs"]), set(s["lights"])
    bad = []
    for lid, d in s["lanelets"].items():
        for k in ("predecessor", "successor"):
            bad += [("lanelet.%s" % k, x) for x in d[k] if x not in L]
        for k in ("adj_left", "adj_right"):
            v = d[k]
            if v != ("n",) and v[1] not in L:
                bad.append(("lanelet.%s" % k, v[1]))
        bad += [("lanelet.traffic_signs", x) for x in d["traffic_signs"] if x not in SG]
        bad += [("lanelet.traffic_lights", x) for x in d["traffic_lights"] if x not in LT]
        sl = d["stop_line"]
        if sl != ("n",):
            bad += [("stop_line.traffic_sign_ref", x) for x in sl["traffic_sign_ref"] if x not in SG]
            bad += [("stop_line.traffic_light_ref", x) for x in sl["traffic_light_ref"] if x not in LT]
    for iid, d in s["intersections"].items():
        for inc in d["incomings"].values():
            for k in ("incoming_lanelets", "successors_right", "successors_straight", "successors_left"):
                bad += [("incoming.%s" % k, x) for x in inc[k] if x not in L]
        bad += [("intersection.crossings", x) for x in d["crossings"] if x not in L]
    for name, keys in s.get("derived_maps", {}).items():
        bad += [(name.split(" ", 2)[-1] if name.startswith("intersection") else "network.map_inc_lanelets_to_intersections", x)
                for x in keys if x not in L]
    return bad


def expected_lanelet(d, L, SG, LT):
    """old lanelet content restricted to the surviving ids"""
    e = copy.deepcopy(d)
    e["predecessor"] = [x for x in d["predecessor"] if x in L]
    e["successor"] = [x for x in d["successor"] if x in L]
    for k in ("adj_left", "adj_right"):
        if d[k] != ("n",) and d[k][1] not in L:
            e[k] = ("n",)
            e[k + "_same_direction"] = ("n",)
    e["traffic_signs"] = [x for x in d["traffic_signs"] if x in SG]
    e["traffic_lights"] = [x for x in d["traffic_lights"] if x in LT]
    if d["stop_line"] != ("n",):
        e["stop_line"]["traffic_sign_ref"] = [x for x in d["stop_line"]["traffic_sign_ref"] if x in SG]
        e["stop_line"]["traffic_light_ref"] = [x for x in d["stop_line"]["traffic_light_ref"] if x in LT]
    return e


def run(ctx):
    warnings.simplefilter("ignore")
    import numpy as np
    from commonroad.common.common_lanelet import LaneletType
    from commonroad.geometry.shape import Circle, Rectangle
    from commonroad.scenario.lanelet import LaneletNetwork
    from commonroad.scenario.scenario import Scenario
    from vf.gen import lattice
    from vf.monitors import lookup
    from vf.oracle import geom
    from vf.oracle import structure as S

    def check_after(op, before, after, removed_L=(), removed_S=(), removed_T=(), removed_I=(), wit=None, cutout=False):
        """before/after: snapshots; removed_*: ids the operation is expected to remove"""
        bad = dangling(after)
        for where, i in bad[:3]:
            ctx.violation("C10/%s/dangling-reference/%s" % (op, where), "%s -> %d does not exist" % (where, i), wit)
        L = set(before["lanelets"]) - set(removed_L)
        SG = set(before["signs"]) - set(removed_S)
        LT = set(before["lights"]) - set(removed_T)
        for name, exp_ids, cat in (("lanelets", L, "lanelet"), ("signs", SG, "sign"), ("lights", LT, "light")):
            got = set(after[name])
            if got - exp_ids:
                ctx.violation("C10/%s/%s-should-have-been-removed" % (op, cat), "%s still present" % sorted(got - exp_ids), wit)
            if exp_ids - got:
                ctx.violation("C10/%s/%s-not-selected-but-missing" % (op, cat), "%s missing" % sorted(exp_ids - got), wit)
        for lid in L & set(after["lanelets"]):
            e = expected_lanelet(before["lanelets"][lid], L, SG & set(after["signs"]), LT & set(after["lights"]))
            dfs = S.diff(e, after["lanelets"][lid], S.real_ok_bits)
            for p, a, b in dfs[:2]:
                ctx.violation("C10/%s/surviving-lanelet-changed%s" % (op, S.generalise(p)),
                              "lanelet %d %s: expected %s got %s" % (lid, p, a, b), wit)
        for sid in SG & set(after["signs"]):
            if S.diff(before["signs"][sid], after["signs"][sid], S.real_ok_bits):
                ctx.violation("C10/%s/surviving-sign-changed" % op, "sign %d" % sid, wit)
        for sid in LT & set(after["lights"]):
            if S.diff(before["lights"][sid], after["lights"][sid], S.real_ok_bits):
                ctx.violation("C10/%s/surviving-light-changed" % op, "light %d" % sid, wit)
        I = set(before["intersections"]) - set(removed_I)
        gotI = set(after["intersections"])
        if not cutout:
            if gotI != I:
                ctx.violation("C10/%s/intersection-set-wrong" % op, "got %s expected %s" % (sorted(gotI), sorted(I)), wit)
        for iid in gotI & set(before["intersections"]):
            b, a = before["intersections"][iid], after["intersections"][iid]
            if a["crossings"] != [x for x in b["crossings"] if x in L]:
                ctx.violation("C10/%s/intersection-crossings-wrong" % op, "%s vs old %s restricted to %s" % (
                    a["crossings"], b["crossings"], sorted(L)), wit)
            if not cutout and set(a["incomings"]) != set(b["incomings"]):
                ctx.violation("C10/%s/incoming-elements-changed" % op, "%s vs %s" % (sorted(a["incomings"]),
                                                                                   sorted(b["incomings"])), wit)
            for k, inc in a["incomings"].items():
                if k not in b["incomings"]:
                    ctx.violation("C10/%s/unknown-incoming" % op, k, wit)
                    continue
                for f in ("incoming_lanelets", "successors_right", "successors_straight", "successors_left"):
                    if inc[f] != [x for x in b["incomings"][k][f] if x in L]:
                        ctx.violation("C10/%s/incoming-%s-wrong" % (op, f), "%s vs old %s restricted to %s" % (
                            inc[f], b["incomings"][k][f], sorted(L)), wit)

        # relations between remaining lanelets that an intersection records (incoming lanelet x -> successor y of a
        # turning kind) are relations between remaining elements: they persist, also through a cut-out
        for iid, b in before["intersections"].items():
            if iid in removed_I:
                continue
            for k, inc in b["incomings"].items():
                for f in ("successors_right", "successors_straight", "successors_left"):
                    for x in inc["incoming_lanelets"]:
                        for y in inc[f]:
                            if x in L and y in L:
                                ctx.feature("incoming-relation-between-survivors." + f)
                                a = after["intersections"].get(iid, {"incomings": {}})["incomings"].get(k)
                                if a is None or x not in a["incoming_lanelets"] or y not in a[f]:
                                    ctx.violation("C10/%s/incoming-relation-between-remaining-lanelets-lost/%s" % (op, f),
                                                  "intersection %s incoming %s: %s -> %s (both remain) is gone" % (
                                                      iid, k, x, y), wit)

    n = ctx.pick(200, 80000)
    for i, rng in ctx.cases("histories", n):
        net0 = gen_network(rng)
        sc = Scenario(0.1)
        sc.add_objects(copy.deepcopy(net0))
        hist = []
        watched = []  # (network, snapshot, role): networks nothing is removed from any more -- they must stay as they are
        ctx.fingerprint(["net", sorted(snap(net0)["lanelets"]), i])
        if i < 2:
            s0 = snap(net0)
            ctx.sample({"lanelets": {k: {r: v[r] for r in REL} for k, v in s0["lanelets"].items()},
                        "signs": sorted(s0["signs"]), "lights": sorted(s0["lights"]),
                        "intersections": s0["intersections"]})
        for step in range(rng.randint(1, 6)):
            net = sc.lanelet_network
            before = snap(net)
            if not before["lanelets"]:
                break
            ops = ["scenario.remove_lanelet", "scenario.remove_lanelet-list", "scenario.remove_lanelet-noref",
                   "scenario.remove_lanelet-in-two-calls", "scenario.remove_lanelet-in-two-calls-list",
                   "network.remove_lanelet", "network.remove_traffic_sign", "network.remove_traffic_light",
                   "network.remove_intersection", "scenario.remove_traffic_sign", "scenario.remove_traffic_light",
                   "scenario.remove_intersection", "cutout.shape", "cutout.types", "cutout.both", "cutout.list",
                   "cutout.none"]
            op = ops[(i + step * 5) % len(ops)] if step == 0 else rng.choice(ops)
            hist.append(op)
            wit = {"history": list(hist), "network": {k: {r: v[r] for r in REL} for k, v in before["lanelets"].items()},
                   "intersections": before["intersections"]}
            ctx.evaluation()
            try:
                if op.startswith("scenario.remove_lanelet") or op == "network.remove_lanelet":
                    lids = sorted(before["lanelets"])
                    victims = rng.sample(lids, 1 if "list" not in op else min(len(lids), rng.randint(1, 3)))
                    objs = [net.find_lanelet_by_id(v) for v in victims]
                    if any(v in inc[f] for x in before["intersections"].values() for inc in x["incomings"].values()
                           for f in inc if f != "left_of" for v in victims):
                        ctx.feature("removed-lanelet-was-referenced-by-intersection")
                    if any(v in x["crossings"] for x in before["intersections"].values() for v in victims):
                        ctx.feature("crossing-removed")
                    remaining = [l for l in lids if l not in victims]
                    vs = set().union(*[set(before["lanelets"][v]["traffic_signs"]) for v in victims])
                    vl = set().union(*[set(before["lanelets"][v]["traffic_lights"]) for v in victims])
                    rs = set().union(*[set(before["lanelets"][v]["traffic_signs"]) for v in remaining]) if remaining else set()
                    rl = set().union(*[set(before["lanelets"][v]["traffic_lights"]) for v in remaining]) if remaining else set()
                    if vs & rs:
                        ctx.feature("removed-lanelet-had-shared-sign")
                    if op == "network.remove_lanelet":
                        net.remove_lanelet(victims[0])
                        _forget(sc, victims[0])
                        exp_s, exp_t = set(), set()
                    elif "in-two-calls" in op:
                        # the two documented steps by hand: first the signs and lights that only the victims use, then the
                        # lanelets themselves without their references
                        arg_ = objs if "list" in op else objs[0]
                        sc.remove_hanging_lanelet_members(arg_)
                        sc.remove_lanelet(arg_, referenced_elements=False)
                        exp_s, exp_t = vs - rs, vl - rl
                    else:
                        ref = "noref" not in op
                        sc.remove_lanelet(objs if "list" in op else objs[0], referenced_elements=ref)
                        exp_s, exp_t = (vs - rs, vl - rl) if ref else (set(), set())
                    ctx.feature("op." + op)
                    check_after(op, before, snap(sc.lanelet_network), victims, exp_s, exp_t, (), wit)
                elif op.endswith("remove_traffic_sign") or op.endswith("remove_traffic_light"):
                    cat = "signs" if op.endswith("sign") else "lights"
                    if not before[cat]:
                        continue
                    v = rng.choice(sorted(before[cat]))
                    key = "traffic_sign_ref" if cat == "signs" else "traffic_light_ref"
                    if any(d["stop_line"] != ("n",) and v in d["stop_line"][key] for d in before["lanelets"].values()):
                        ctx.feature("removed-sign-was-in-stop-line")
                    if op.startswith("network"):
                        (net.remove_traffic_sign if cat == "signs" else net.remove_traffic_light)(v)
                        _forget(sc, v)
                    elif cat == "signs":
                        sc.remove_traffic_sign(net.find_traffic_sign_by_id(v))
                    else:
                        sc.remove_traffic_light(net.find_traffic_light_by_id(v))
                    ctx.feature("op." + op)
                    check_after(op, before, snap(sc.lanelet_network), (), {v} if cat == "signs" else (),
                                {v} if cat == "lights" else (), (), wit)
                elif op.endswith("remove_intersection"):
                    if not before["intersections"]:
                        continue
                    v = rng.choice(sorted(before["intersections"]))
                    if op.startswith("network"):
                        inter = net.find_intersection_by_id(v)
                        net.remove_intersection(v)
                        _forget(sc, v)
                        for inc in inter.incomings:
                            _forget(sc, inc.incoming_id)
                    else:
                        sc.remove_intersection(net.find_intersection_by_id(v))
                    ctx.feature("op." + op)
                    check_after(op, before, snap(sc.lanelet_network), (), (), (), {v}, wit)
                else:
                    # cut-outs produce a NEW network; the scenario continues with it
                    shape, types = None, None
                    if op != "cutout.list" and (i + step) % 3 == 0:
                        # the source network was extended without re-building its spatial index (documented batch usage of
                        # rtree=False): the cut-out is defined by the lanelets' geometry, whatever the state of the index.
                        # (done on a copy, so that the harness scenario keeps its registered ids)
                        net = copy.deepcopy(net)
                        base_la = net.lanelets[0]
                        ex, ey = float(base_la.right_vertices[-1][0]), float(base_la.right_vertices[-1][1])
                        extra = lattice.lanelet(7000 + step, lattice.strip(rng, ex, ey, 3, 2.0, 3.0, wobble=False),
                                                predecessor=[base_la.lanelet_id])
                        net.add_lanelet(extra, rtree=False)
                        base_la.successor = list(base_la.successor) + [extra.lanelet_id]
                        before = snap(net)
                        ctx.feature("cutout-after-deferred-add")
                    lids = sorted(before["lanelets"])
                    if op in ("cutout.shape", "cutout.both"):
                        la = net.find_lanelet_by_id(rng.choice(lids))
                        c = la.center_vertices[len(la.center_vertices) // 2]
                        shape = Rectangle(rng.choice([2.0, 6.0, 14.0]), rng.choice([2.0, 8.0]), np.array(
                            [c[0] + lattice.q(rng, -2, 2), c[1] + lattice.q(rng, -2, 2)]), 0.0) if rng.random() < 0.7 \
                            else Circle(rng.choice([2.0, 6.0]), np.array([c[0], c[1]]))
                        r_ = rng.random()
                        if r_ < 0.2:
                            from commonroad.geometry.shape import Polygon
                            shape = Polygon(np.array([[c[0] - 3.0, c[1] - 1.0], [c[0] + 4.0, c[1] - 1.0],
                                                      [c[0] + 0.5, c[1] + 6.0]]))
                            ctx.feature("cutout-shape.polygon")
                        elif r_ < 0.4 and isinstance(shape, Rectangle):
                            # a shape group is the union of its members (second member far away or on another lanelet)
                            from commonroad.geometry.shape import ShapeGroup
                            lb = net.find_lanelet_by_id(rng.choice(lids))
                            c2 = lb.center_vertices[0]
                            shape = ShapeGroup([shape, Rectangle(2.0, 2.0, np.array([c2[0] + lattice.q(rng, -1, 1),
                                                                                    c2[1] + lattice.q(rng, -1, 1)]), 0.0)
                                                if rng.random() < 0.6 else Rectangle(1.0, 1.0, np.array([5e3, 5e3]), 0.0)])
                            ctx.feature("cutout-shape.group")
                    if op in ("cutout.types", "cutout.both"):
                        types = set(rng.sample([LaneletType.URBAN, LaneletType.HIGHWAY, LaneletType.SIDEWALK,
                                                LaneletType.CROSSWALK, LaneletType.BUS_LANE], rng.randint(1, 2)))
                    if op == "cutout.list":
                        keep = rng.sample(lids, rng.randint(1, len(lids)))
                        new = LaneletNetwork.create_from_lanelet_list([net.find_lanelet_by_id(k) for k in keep],
                                                                      cleanup_ids=True)
                        removed = [l for l in lids if l not in keep]
                        ctx.feature("op.cutout.list")
                        a = snap(new)
                        # a lanelet list carries no signs / lights / intersections: references to them must be gone
                        check_after(op, before, a, removed, set(before["signs"]), set(before["lights"]),
                                    set(before["intersections"]), wit, cutout=True)
                    else:
                        src_all = snap_all(net)
                        new = LaneletNetwork.create_from_lanelet_network(net, shape, types)
                        ctx.counter("cutout.source-rechecked")
                        dfs_ = S.diff(_sk(src_all), _sk(snap_all(net)), S.real_ok_bits)
                        if dfs_:
                            ctx.violation("C10/cutout/changed-the-source-network" + S.generalise(dfs_[0][0]),
                                          "%s: %s -> %s" % dfs_[0], wit)
                        removed, undecided = [], False
                        for l in lids:
                            la = net.find_lanelet_by_id(l)
                            out_t = bool(types and la.lanelet_type & types)
                            out_s = False
                            if shape is not None:
                                v = geom.desc_ring_relation(geom.describe(shape), geom.lanelet_ring(la),
                                                            exact=lookup.shape_is_lattice(shape))
                                if v is None:
                                    undecided = True
                                out_s = v is False
                            if out_t or out_s:
                                removed.append(l)
                        ctx.feature("op." + op)
                        if undecided:
                            ctx.skipped()
                            continue
                        a = snap(new)
                        kept = [l for l in lids if l not in removed]
                        ks = set().union(*[set(before["lanelets"][v]["traffic_signs"]) for v in kept]) if kept else set()
                        kl = set().union(*[set(before["lanelets"][v]["traffic_lights"]) for v in kept]) if kept else set()
                        if shape is not None and type(shape).__name__ == "Circle" and \
                                set(a["lanelets"]) != set(kept):
                            # classify the known circle defect (exported disc of half the radius)
                            half = [l for l in lids if geom.desc_ring_relation(
                                ("circle", tuple(map(float, shape.center)), shape.radius / 2),
                                geom.lanelet_ring(net.find_lanelet_by_id(l))) is not False and not (
                                types and net.find_lanelet_by_id(l).lanelet_type & types)]
                            if set(a["lanelets"]) <= set(kept) and set(half) <= set(a["lanelets"]) | set(
                                    l for l in lids if geom.desc_ring_relation(
                                        ("circle", tuple(map(float, shape.center)), shape.radius / 2),
                                        geom.lanelet_ring(net.find_lanelet_by_id(l))) is None):
                                ctx.violation("C10/cutout/selection-as-if-circle-radius-halved",
                                              "kept %s, geometry says %s" % (sorted(a["lanelets"]), sorted(kept)), wit)
                                continue
                        check_after(op, before, a, removed, set(before["signs"]) - ks, set(before["lights"]) - kl, (), wit,
                                    cutout=True)
                    # a cut-out is a new network ("copy"): what happens to one of the two later does not concern the other.
                    # The history goes on with the cut-out (or, every fourth time, with the source); the other one is
                    # watched from now on.
                    if (i + step) % 4 == 1 and op != "cutout.list" and new.lanelets:
                        watched.append((new, snap_all(new), "cut-out"))
                        ctx.feature("history-continues-on-source-after-cutout")
                    else:
                        watched.append((net, snap_all(net), "source"))
                        sc = Scenario(0.1)
                        sc.add_objects(new)
                for wn, ws, role in watched:
                    ctx.counter("watched-network-rechecked")
                    dfs = S.diff(_sk(ws), _sk(snap_all(wn)), S.real_ok_bits)
                    if dfs:
                        ctx.violation("C10/later-operation-changed-the-other-network/%s%s" % (role, S.generalise(dfs[0][0])),
                                      "%s of an earlier cut-out changed at %s: %s -> %s although the operation was "
                                      "performed on the other network" % (role, dfs[0][0], dfs[0][1], dfs[0][2]), wit)
                        watched = []
                        break
            except Exception as e:  # noqa
                import traceback
                ctx.violation("C10/%s/raises-%s" % (op, type(e).__name__), traceback.format_exc()[-500:], wit)
                break

    # ------------------------------------------------------------------------ scripted: cut-out, then removal in one
    # of the two networks; the other one keeps every relation (an incoming element that survives the cut-out completely
    # is the interesting case: all its lanelets and successors are inside the new network)
    from commonroad.scenario.intersection import Intersection, IntersectionIncomingElement
    for i, rng in ctx.cases("cutout-then-removal", ctx.pick(48, 6000)):
        net = gen_network(rng)
        lids = sorted(l.lanelet_id for l in net.lanelets)
        a, b, c = rng.sample(lids, 3)
        net.add_intersection(Intersection(900, [IntersectionIncomingElement(901, {a}, {b}, {c}, set(), left_of=902),
                                                IntersectionIncomingElement(902, {b}, set(), {a}, {c}),
                                                IntersectionIncomingElement(903, {c}, set(), {b}, set(), left_of=901)], {c}))
        how = ("none", "shape-around-everything", "types-nobody-has")[i % 3]
        shape = Rectangle(4000.0, 4000.0, np.array([0.0, 0.0]), 0.0) if how == "shape-around-everything" else None
        types = {LaneletType.INTERSTATE} if how == "types-nobody-has" else None
        for la in net.lanelets:
            la.lanelet_type = la.lanelet_type - {LaneletType.INTERSTATE} or {LaneletType.URBAN}
        src_before = snap(net)
        new = LaneletNetwork.create_from_lanelet_network(net, shape, types)
        ctx.evaluation()
        ctx.fingerprint(["ctr", how, i, sorted(src_before["lanelets"])])
        wit = {"history": ["cutout." + how], "intersections": src_before["intersections"], "case": i}
        if set(snap(new)["lanelets"]) != set(lids):
            ctx.violation("C10/cutout.%s/lanelet-not-selected-but-missing" % how, "kept %s of %s" % (
                sorted(snap(new)["lanelets"]), lids), wit)
            continue
        dfs = S.diff(_sk(src_before), _sk(snap(net)), S.real_ok_bits)
        if dfs:
            ctx.violation("C10/cutout/changed-the-source-network" + S.generalise(dfs[0][0]), "%s: %s -> %s" % dfs[0], wit)
            continue
        # nothing was selected for removal: the cut-out is a complete copy, "every element ... with unchanged content"
        sa, sb = snap_all(net), snap_all(new)
        for cat in ("lanelets", "signs", "lights"):
            sb[cat] = {k: v for k, v in sb[cat].items()}
        # (signs / lights / intersections that no kept lanelet refers to may be left out by a cut-out: compare the common ones)
        # (... and which incoming elements of an intersection survive is not fixed either: those present in both)
        for iid in list(sa["intersections"]):
            if iid in sb["intersections"]:
                both = set(sa["intersections"][iid]["incomings"]) & set(sb["intersections"][iid]["incomings"])
                for side in (sa, sb):
                    side["intersections"][iid]["incomings"] = {k: v for k, v in side["intersections"][iid]["incomings"].items()
                                                               if k in both}
        for side in (sa, sb):
            side.pop("derived_maps", None)   # (they follow from which incoming elements survive)
        common = {cat: {k: sa[cat][k] for k in sa[cat] if k in sb[cat]} for cat in sa}
        dfs = S.diff(_sk(common), _sk({cat: {k: sb[cat][k] for k in common[cat]} for cat in sb}), S.real_ok_bits)
        ctx.feature("complete-copy-compared-with-source")
        if dfs:
            ctx.violation("C10/cutout.%s/element-of-a-complete-copy-differs-from-the-source%s" % (how, S.generalise(dfs[0][0])),
                          "%s: source %s, copy %s" % dfs[0], wit)
            continue
        on_cut = (i // 3) % 2 == 0
        act, other, role = (new, net, "source") if on_cut else (net, new, "cut-out")
        other_before = snap(other)
        victim = (a, b, c)[(i // 6) % 3]
        via = ("network.remove_lanelet", "scenario.remove_lanelet")[(i // 18) % 2]
        wit["history"].append("%s(%d) on the %s" % (via, victim, "cut-out" if on_cut else "source"))
        try:
            if via == "network.remove_lanelet":
                act.remove_lanelet(victim)
                after_act = snap(act)
            else:
                sc2 = Scenario(0.1)
                sc2.add_objects(act)
                sc2.remove_lanelet(sc2.lanelet_network.find_lanelet_by_id(victim))
                after_act = snap(sc2.lanelet_network)
        except Exception as e:  # noqa
            ctx.violation("C10/%s/raises-%s" % (via, type(e).__name__), repr(e), wit)
            continue
        ctx.feature("removal-after-cutout.other-network-rechecked." + role)
        ctx.feature("removal-after-cutout.via-" + via)
        if dangling(after_act):
            ctx.violation("C10/%s/dangling-reference/%s" % (via, dangling(after_act)[0][0]), repr(dangling(after_act)[:3]), wit)
        dfs = S.diff(_sk(other_before), _sk(snap(other)), S.real_ok_bits)
        if dfs:
            ctx.violation("C10/later-operation-changed-the-other-network/%s%s" % (role, S.generalise(dfs[0][0])),
                          "%s changed at %s: %s -> %s although lanelet %d was removed from the other network only" % (
                              role, dfs[0][0], dfs[0][1], dfs[0][2], victim), wit)
