"""C19 — rendering is total and shows the model at the selected time.

(1) totality: draw + render wrapped, an exception is a violation with the parameter setting as witness;
(2) exactness: between draw and render the collected patches (renderer.obstacle_patches, public) are converted back to
    rings / circles and matched against the occupancy oracle (required <= drawn <= allowed); the lanelet fill
    collection must contain exactly the rings of the selected lanelets;
(3) propagation: after group.name = v every nested group declaring name holds v (walk of the dataclass tree), for
    random assignment sequences at every nesting level."""
import dataclasses
import math
import warnings

CLAIM = True
RULE = ("generated scenarios (all obstacle roles and prediction kinds, uncertain states, default-constructed obstacles, "
        "goal states of several classes with and without position) x draw-parameter settings: time windows before / "
        "inside / after every horizon, draw_shape, draw_icon, draw_occupancies, draw_trajectory (continuous or not), "
        "show_label, draw_signals, draw_direction, draw_initial_state, history, lanelet draw_ids (None / subset / "
        "empty), planning-problem draw_ids, sign / intersection / label switches; exactness cases use shape drawing "
        "only and exact states. distinct = (scenario fingerprint, parameter setting); non-trivial = window not the "
        "default or a non-default flag")
ANCHORS = ["MPRenderer.draw_scenario", "MPRenderer.draw_dynamic_obstacle", "MPRenderer.draw_static_obstacle",
           "MPRenderer.draw_phantom_obstacle", "MPRenderer.draw_environment_obstacle", "MPRenderer._draw_occupancy",
           "MPRenderer.draw_lanelet_network", "MPRenderer.draw_planning_problem_set", "MPRenderer.render",
           "BaseParam.__setattr__", "MPRenderer.draw_trajectory", "MPRenderer.draw_goal_region"]
REQUIRED = ["propagation.after-a-nested-group-was-replaced", "lights-at-selected-time.checked", "lights-at-selected-time.state-differs-from-step-0", "lights-at-selected-time.route-parameters-passed-to-scenario.draw", "lights-at-selected-time.route-second-frame-of-a-reused-renderer", "lights-at-selected-time.route-parameters-passed-to-light.draw", "trajectory-windows.renderer-focused-on-the-obstacle", "totality.draw", "totality.render", "totality.rasterised", "types.icon", "types.shape", "exactness.static-with-later-initial-time-step", "flag.traffic_light.show_label", "totality.all-boolean-parameters-sampled", "renderer.plot-limits", "renderer.focus-obstacle", "renderer.lanelets-in-view-required", "exactness.checked", "exactness.dynamic-trajectory",
            "exactness.dynamic-set", "exactness.static", "exactness.phantom", "exactness.environment",
            "exactness.window-before-horizon", "exactness.window-after-horizon", "exactness.no-occupancy-at-begin",
            "lanelets.all", "lanelets.subset", "lanelets.empty-list", "propagation.root", "propagation.nested",
            "propagation.value-collision", "flag.draw_icon", "flag.show_label", "flag.draw_occupancies",
            "flag.draw_signals", "flag.draw_continuous", "uncertain-state-drawn", "pp.draw_ids", "pp.draw_ids.with-an-id-that-is-not-in-the-set",
            "draw_ids.set-at-the-top-level",
            "exactness.uncertain-initial-position", "exactness.parameters-passed-with-the-draw-call", "exactness.second-frame-of-a-reused-renderer",
            "totality.fan-lanelet-with-marked-short-bound",
            "trajectory-windows.layout-UUUU", "trajectory-windows.layout-EEEUUUEEEE", "trajectory-windows.mode-continuous",
            "exactness.uncertain-initial-position.begin-after-initial-step"]
ASSUMPTIONS = ["colours, z-order and label text are not judged", "exactness is judged for exact states only (an extra "
               "region patch for uncertain positions is legitimate)",
               "for set-based predictions the last step of the window may or may not be drawn (not fixed by the "
               "statement); phantom obstacles: later steps are allowed, only the begin step is required"]
SHARDS = {"quick": 8, "thorough": 16}


def patch_desc(p):
    n = type(p).__name__
    if n == "Polygon":
        xy = p.get_xy()
        ring = [(float(x), float(y)) for x, y in xy]
        return ("poly", ring[:-1] if len(ring) > 1 and ring[0] == ring[-1] else ring)
    if n == "Ellipse":
        return ("circle", (float(p.center[0]), float(p.center[1])), float(p.width) / 2)
    return (n,)


def flat(d):
    if d[0] == "group":
        out = []
        for x in d[1]:
            out += flat(x)
        return out
    if d[0] == "rect":
        return [("poly", d[1])]
    return [d]


def same(a, b):
    from vf.oracle import geom
    if a[0] != b[0]:
        return False
    if a[0] == "circle":
        return geom.desc_equal(a, b, 1e-9)
    return geom.rings_equal(a[1], b[1], 1e-9)


def run(ctx):
    warnings.simplefilter("ignore")
    import matplotlib
    matplotlib.use("Agg")
    import matplotlib.pyplot as plt
    import numpy as np
    from commonroad.prediction.prediction import SetBasedPrediction, TrajectoryPrediction
    from commonroad.scenario.obstacle import DynamicObstacle, EnvironmentObstacle, PhantomObstacle, StaticObstacle
    from commonroad.visualization.draw_params import BaseParam, MPDrawParams
    from commonroad.visualization.mp_renderer import MPRenderer
    from vf.gen.scenarios import ScenarioGen
    from vf.oracle import geom, placement

    def horizon(sc):
        ts = [0]
        for o in sc.dynamic_obstacles:
            ts.append(o.initial_state.time_step)
            if o.prediction is not None:
                f = o.prediction.final_time_step
                ts.append(f if isinstance(f, int) else f.end)
        return max(ts)

    # ------------------------------------------------------------------------------------------------ totality
    n = ctx.pick(110, 6000)
    for i, rng in ctx.cases("totality", n):
        try:
            sc, pps = ScenarioGen(rng, i, "pb", hostile=False, defaults=(i % 4 == 0)).build()
        except Exception as e:  # noqa
            ctx.violation("C19/harness/generator-raises-%s" % type(e).__name__, repr(e)[:200], {"i": i})
            continue
        if i % 4 == 3:
            # a fan-shaped lanelet (turn around a corner): its inner bound is much shorter than its centre line, here
            # shorter than a line marking is wide
            from commonroad.common.common_lanelet import LineMarking
            from commonroad.scenario.lanelet import Lanelet
            ang = np.linspace(0.0, math.pi / 2, 6)
            r_in = [0.02, 0.05, 0.5][(i // 4) % 3]
            cx, cy = 500.0 + 10.0 * i, -700.0
            arc = lambda r_: np.column_stack([cx + r_ * np.cos(ang), cy + r_ * np.sin(ang)])  # noqa
            mk_ = [LineMarking.DASHED, LineMarking.BROAD_DASHED, LineMarking.SOLID, LineMarking.BROAD_SOLID][(i // 12) % 4]
            sc.add_objects(Lanelet(arc(r_in), arc((r_in + 4.0) / 2), arc(4.0), 7000 + i, line_marking_left_vertices=mk_,
                                   line_marking_right_vertices=mk_))
            ctx.feature("totality.fan-lanelet-with-marked-short-bound")
        H = horizon(sc)
        P = MPDrawParams()
        tb = rng.choice([0, 0, 1, 2, H, H + 3, max(0, H - 1)])
        te = tb + rng.choice([0, 1, 5, 200])
        setting = {"time_begin": tb, "time_end": te}
        P.time_begin, P.time_end = tb, te
        flags = {}
        for grp, name in (("dynamic_obstacle", "draw_shape"), ("dynamic_obstacle", "draw_icon"),
                          ("dynamic_obstacle", "show_label"), ("dynamic_obstacle", "draw_signals"),
                          ("dynamic_obstacle", "draw_direction"), ("dynamic_obstacle", "draw_initial_state"),
                          ("dynamic_obstacle", "draw_bounding_box"), ("phantom_obstacle", "draw_shape")):
            v = rng.random() < 0.5
            setattr(getattr(P, grp), name, v)
            flags["%s.%s" % (grp, name)] = v
            if v:
                ctx.feature("flag." + name)
        P.dynamic_obstacle.occupancy.draw_occupancies = flags["dyn.draw_occupancies"] = rng.random() < 0.5
        P.phantom_obstacle.occupancy.draw_occupancies = rng.random() < 0.5
        P.dynamic_obstacle.trajectory.draw_trajectory = flags["traj"] = rng.random() < 0.7
        P.dynamic_obstacle.trajectory.draw_continuous = flags["continuous"] = rng.random() < 0.4
        P.dynamic_obstacle.history.draw_history = flags["history"] = rng.random() < 0.3
        P.dynamic_obstacle.state.draw_arrow = rng.random() < 0.5
        if flags["dyn.draw_occupancies"]:
            ctx.feature("flag.draw_occupancies")
        if flags["continuous"]:
            ctx.feature("flag.draw_continuous")
        lids = [la.lanelet_id for la in sc.lanelet_network.lanelets]
        P.lanelet_network.draw_ids = rng.choice([None, None, [], rng.sample(lids, rng.randint(1, len(lids)))])
        P.lanelet_network.lanelet.show_label = rng.random() < 0.3
        P.lanelet_network.lanelet.draw_border_vertices = rng.random() < 0.2
        P.lanelet_network.lanelet.unique_colors = rng.random() < 0.2
        P.lanelet_network.lanelet.colormap_tangent = rng.random() < 0.1
        P.lanelet_network.traffic_sign.draw_traffic_signs = flags["signs"] = rng.random() < 0.5
        P.lanelet_network.traffic_sign.show_label = rng.random() < 0.3
        P.lanelet_network.traffic_light.draw_traffic_lights = flags["lights"] = rng.random() < 0.7
        P.lanelet_network.traffic_light.show_label = flags["light_labels"] = rng.random() < 0.4
        if flags["light_labels"] and flags["lights"]:
            ctx.feature("flag.traffic_light.show_label")
        P.lanelet_network.intersection.draw_intersections = flags["intersections"] = rng.random() < 0.5
        P.lanelet_network.intersection.show_label = rng.random() < 0.3
        pids = list(pps.planning_problem_dict)
        P.planning_problem_set.draw_ids = rng.choice([None, [], rng.sample(pids, rng.randint(1, len(pids)))] if pids
                                                     else [None])
        if P.planning_problem_set.draw_ids is not None:
            ctx.feature("pp.draw_ids")
        if i % 5 == 1:
            # an id filter is a filter: ids that name nothing select nothing. Set at the top level, the lanelet ids reach the
            # planning-problem group as well (both groups declare draw_ids)
            P.planning_problem_set.draw_ids = list(P.planning_problem_set.draw_ids or pids[:1]) + [987654]
            ctx.feature("pp.draw_ids.with-an-id-that-is-not-in-the-set")
        elif i % 5 == 3 and lids:
            top_ids = lids[: max(1, len(lids) // 2)]
            P.draw_ids = top_ids
            ctx.feature("draw_ids.set-at-the-top-level")
            setting["top_level_draw_ids"] = list(top_ids)
        if i % 2 == 1:
            # "every draw-parameter setting": every boolean parameter of every nested group may deviate from its default
            import dataclasses as _dc

            def _walk(g, path=""):
                for f_ in _dc.fields(g):
                    v_ = getattr(g, f_.name)
                    if isinstance(v_, BaseParam):
                        yield from _walk(v_, path + f_.name + ".")
                    elif isinstance(v_, bool) and not f_.name.startswith("_") and f_.name != "antialiased":
                        yield g, f_.name, path + f_.name
            flipped = []
            for g_, n_, full in list(_walk(P)):
                if full in flags or rng.random() >= 0.25:
                    continue
                setattr(g_, n_, not getattr(g_, n_))
                flipped.append(full)
            setting["flipped"] = flipped
            ctx.feature("totality.all-boolean-parameters-sampled")
        setting["flags"] = flags
        setting["lanelet_draw_ids"] = P.lanelet_network.draw_ids
        unc = any(not isinstance(o.initial_state.position, np.ndarray) for o in sc.static_obstacles + sc.dynamic_obstacles)
        if unc:
            ctx.feature("uncertain-state-drawn")
        ctx.fingerprint(["tot", i, setting])
        if i < 2:
            ctx.sample({"setting": setting, "obstacles": [type(o).__name__ for o in sc.obstacles]})
        fig = plt.figure(figsize=(4, 3))
        try:
            rnd = MPRenderer(draw_params=P, ax=fig.gca())
            stage = "scenario.draw"
            try:
                ctx.evaluation()
                sc.draw(rnd)
                stage = "planning_problem_set.draw"
                pps.draw(rnd)
                ctx.feature("totality.draw")
                stage = "render"
                rnd.render()
                ctx.feature("totality.render")
                if i % 3 == 0:
                    stage = "canvas.draw"
                    fig.canvas.draw()
                    ctx.feature("totality.rasterised")
            except Exception as e:  # noqa
                import traceback
                tb_ = traceback.extract_tb(e.__traceback__)
                site = next((f.name for f in reversed(tb_) if "commonroad" in f.filename), "?")
                ctx.violation("C19/totality/%s/raises-%s/%s%s" % (stage, type(e).__name__, site,
                                                                  ""),
                              repr(e)[:200], {"setting": setting, "scenario_case": i})
        finally:
            plt.close(fig)

    # ----------------------------------------------------------------------------------------------- exactness
    def expected(ob, tb, te):
        """(required, allowed) lists of flat shape descriptions"""
        def occd(occ):
            return flat(geom.describe(occ.shape))
        if isinstance(ob, EnvironmentObstacle):
            d = flat(geom.describe(ob.obstacle_shape))
            return d, d
        if isinstance(ob, StaticObstacle):
            d = flat(placement.expected_occupancy_desc(ob.obstacle_shape, ob.initial_state))
            return d, d
        if isinstance(ob, PhantomObstacle):
            req, alw = [], []
            if ob.prediction is not None:
                for o in ob.prediction.occupancy_set:
                    ts = [o.time_step] if isinstance(o.time_step, int) else list(range(o.time_step.start, o.time_step.end + 1))
                    if tb in ts:
                        req += occd(o)
                    if any(tb <= t <= te for t in ts):
                        alw += occd(o)
            return req, alw
        t0 = ob.initial_state.time_step
        req, alw = [], []
        if isinstance(ob.prediction, SetBasedPrediction):
            occs = ob.prediction.occupancy_set

            def at(t):
                for o in occs:
                    if (o.time_step == t) if isinstance(o.time_step, int) else (o.time_step.start <= t <= o.time_step.end):
                        return o
                return None
            if tb == t0:
                req += flat(placement.expected_occupancy_desc(ob.obstacle_shape, ob.initial_state))
            elif tb > t0 and at(tb) is not None:
                req += occd(at(tb))
            alw += req
            for t in range(tb + 1, te + 1):
                o = None if t <= t0 else at(t)
                if t == t0:
                    d = flat(placement.expected_occupancy_desc(ob.obstacle_shape, ob.initial_state))
                    alw += d
                    if t < te:
                        req += d
                elif o is not None:
                    alw += occd(o)
                    if t < te:
                        req += occd(o)
            return req, alw
        if tb == t0 and not isinstance(ob.initial_state.position, np.ndarray):
            # uncertain initial position: the enclosing occupancy is not judged here (C04 does), the region patch is admitted
            occ0 = ob.occupancy_at_time(t0)
            return [], (occd(occ0) if occ0 is not None else []) + flat(geom.describe(ob.initial_state.position))
        if tb == t0:
            req = flat(placement.expected_occupancy_desc(ob.obstacle_shape, ob.initial_state))
        elif tb > t0 and isinstance(ob.prediction, TrajectoryPrediction):
            for s in ob.prediction.trajectory.state_list:
                if s.time_step == tb:
                    req = flat(placement.expected_occupancy_desc(ob.prediction.shape, s))
        return req, list(req)

    n = ctx.pick(120, 6000)
    for i, rng in ctx.cases("exactness", n):
        from vf.checks.C04 import gen_shape, gen_state, TRAJ_CLASSES
        from commonroad.common.util import Interval
        from commonroad.prediction.prediction import Occupancy
        from commonroad.scenario.obstacle import ObstacleType
        from commonroad.scenario.scenario import Scenario
        from commonroad.scenario.trajectory import Trajectory
        from vf.gen import lattice
        from vf.gen.objects import Gen
        G = Gen(rng)
        sc = Scenario(0.1)
        lanelets, _ = lattice.gen_lanelets(rng, nmax=4)
        sc.add_objects(lanelets)
        obs = []
        for oid in range(101, 101 + rng.randint(2, 6)):
            kind = ["dynamic-trajectory", "dynamic-set", "static", "phantom", "environment", "dynamic-none"][(i + oid) % 6]
            t0 = rng.choice([0, 0, 2])
            if kind.startswith("dynamic"):
                shape = gen_shape(G, rng)
                init = gen_state(G, rng, "InitialState", t0, oid)
                if kind != "dynamic-set" and ((i + oid) // 6) % 2 == 0:
                    # the initial POSITION is a region: at the initial time step the renderer may add a patch for that region;
                    # at any other begin step the region of the initial state is no occupancy the model reports
                    from commonroad.geometry.shape import Circle, Rectangle
                    c_ = np.array(init.position, dtype=float)
                    init.position = Circle(0.75, c_) if oid % 2 else Rectangle(1.5, 0.5, c_, 0.0)
                    ctx.feature("exactness.uncertain-initial-position")
                pred = None
                if kind == "dynamic-trajectory":
                    cls = rng.choice(["KSState", "STState", "PMState", "CustomState"])
                    pred = TrajectoryPrediction(Trajectory(t0 + 1, [gen_state(G, rng, cls, t0 + 1 + k, oid)
                                                                    for k in range(rng.randint(1, 5))]), shape)
                elif kind == "dynamic-set":
                    occs, t = [], t0 + 1
                    for _ in range(rng.randint(1, 4)):
                        if rng.random() < 0.3:
                            occs.append(Occupancy(Interval(t, t + 1), G.shape()))
                            t += 2
                        else:
                            occs.append(Occupancy(t, G.shape()))
                            t += 1
                    pred = SetBasedPrediction(t0 + 1, occs)
                ob = DynamicObstacle(oid, ObstacleType.CAR, shape, init, pred)
            elif kind == "static":
                # the initial state of a static obstacle may carry any time step: its occupancy is the same at ALL times
                ts0 = rng.choice([0, 0, 4, 30, 250])
                if ts0:
                    ctx.feature("exactness.static-with-later-initial-time-step")
                ob = StaticObstacle(oid, ObstacleType.PARKED_VEHICLE, gen_shape(G, rng),
                                    gen_state(G, rng, "InitialState", ts0, oid))
            elif kind == "phantom":
                ob = PhantomObstacle(oid, SetBasedPrediction(1, [Occupancy(1 + k, G.shape()) for k in range(rng.randint(1, 3))]))
            else:
                ob = EnvironmentObstacle(oid, ObstacleType.BUILDING, G.shape())
            ctx.feature("exactness." + (kind if kind != "dynamic-none" else "dynamic-trajectory"))
            sc.add_objects(ob)
            obs.append(ob)
        H = horizon(sc)
        tb = rng.choice([0, 0, 1, 2, 3, H, H + 1, H + 4])
        te = tb + rng.choice([0, 1, 2, 4, 200])
        if tb > H:
            ctx.feature("exactness.window-after-horizon")
        if any(isinstance(o, DynamicObstacle) and o.initial_state.time_step > te for o in obs):
            ctx.feature("exactness.window-before-horizon")
        P = MPDrawParams()
        P.time_begin, P.time_end = tb, te
        for grp in (P.dynamic_obstacle, P.phantom_obstacle):
            grp.draw_shape, grp.draw_icon, grp.draw_signals, grp.draw_direction, grp.show_label = True, False, False, False, False
            grp.draw_initial_state = False
            grp.history.draw_history = False
            grp.occupancy.draw_occupancies = False
        P.dynamic_obstacle.trajectory.draw_trajectory = False
        lids = [la.lanelet_id for la in lanelets]
        sel = [None, [], rng.sample(lids, rng.randint(1, len(lids)))][i % 3]
        ctx.feature("lanelets." + ("all" if sel is None else "empty-list" if not sel else "subset"))
        P.lanelet_network.draw_ids = sel
        # renderer configuration: default / absolute plot limits / focus obstacle (limits relative to its position)
        rconf = ["default", "default", "plot-limits", "focus-obstacle", "focus-obstacle+limits"][(i // 3) % 5]
        rkw, view = {}, None
        if rconf != "default":
            # far away from the origin, so that world coordinates and obstacle-relative coordinates cannot be confused
            shift = np.array([rng.choice([300.0, -450.0]), rng.choice([200.0, -120.0])])
            sc.translate_rotate(shift, 0.0)
            c0 = lanelets[0].center_vertices[len(lanelets[0].center_vertices) // 2]
            if rconf == "plot-limits":
                lim = [float(c0[0]) - 6.0, float(c0[0]) + 6.0, float(c0[1]) - 5.0, float(c0[1]) + 5.0]
                rkw, view = {"plot_limits": lim}, lim
            else:
                from commonroad.geometry.shape import Rectangle
                from commonroad.scenario.state import InitialState
                focus = StaticObstacle(99, ObstacleType.PARKED_VEHICLE, Rectangle(1.0, 1.0), InitialState(
                    time_step=0, position=np.array([float(c0[0]), float(c0[1])]), orientation=0.0))
                sc.add_objects(focus)
                obs.append(focus)
                rel = [-12.0, 12.0, -9.0, 9.0] if rconf.endswith("limits") else [-20.0, 20.0, -20.0, 20.0]
                rkw = {"focus_obstacle": focus}
                if rconf.endswith("limits"):
                    rkw["plot_limits"] = rel
                view = [c0[0] + rel[0], c0[0] + rel[1], c0[1] + rel[2], c0[1] + rel[3]]
        ctx.feature("renderer." + rconf)
        fig = plt.figure(figsize=(3, 3))
        wit = {"time_begin": tb, "time_end": te, "draw_ids": sel, "renderer": rconf,
               "obstacles": [[type(o).__name__, o.obstacle_id] for o in obs]}
        try:
            ctx.evaluation()
            if rconf == "default" and i % 2 == 1:
                # the parameters are handed over with the draw call, object by object (a renderer with its own default
                # parameters): "every draw-parameter setting" applies however it reaches the renderer
                rnd = MPRenderer(ax=fig.gca())
                sc.lanelet_network.draw(rnd, P)
                for ob_ in sc.obstacles:
                    ob_.draw(rnd, P)
                ctx.feature("exactness.parameters-passed-with-the-draw-call")
                wit["route"] = "object.draw(renderer, params)"
            elif rconf == "default" and i % 4 == 2:
                # one renderer for two frames (an animation loop that keeps the static artists): the second frame shows the
                # model at ITS time window, nothing of the first one
                import copy as _cp
                PA = _cp.deepcopy(P)
                PA.time_begin, PA.time_end = 0, 4
                rnd = MPRenderer(draw_params=PA, ax=fig.gca())
                sc.draw(rnd)
                rnd.render(keep_static_artists=True)
                rnd.draw_params = P
                sc.draw(rnd)
                ctx.feature("exactness.second-frame-of-a-reused-renderer")
                wit["route"] = "frame [0, 4] rendered with keep_static_artists=True, then this frame on the same renderer"
            else:
                rnd = MPRenderer(draw_params=P, ax=fig.gca(), **rkw)
                sc.draw(rnd)
            patches = [patch_desc(p) for p in rnd.obstacle_patches]
            fills = [c for c in rnd.static_collections if type(c).__name__ == "PolyCollection"]
            rnd.render()
        except Exception as e:  # noqa
            ctx.violation("C19/exactness/draw-raises-%s" % type(e).__name__, repr(e)[:200], wit)
            plt.close(fig)
            continue
        finally:
            plt.close(fig)
        ctx.feature("exactness.checked")
        if any(isinstance(o, DynamicObstacle) and not isinstance(o.initial_state.position, np.ndarray) and
               isinstance(o.prediction, TrajectoryPrediction) and
               o.initial_state.time_step < tb <= o.prediction.final_time_step for o in obs):
            ctx.feature("exactness.uncertain-initial-position.begin-after-initial-step")
        ctx.fingerprint(["exact", i, tb, te, sel])
        req_all, alw_all = [], []
        for ob in obs:
            r, a = expected(ob, tb, te)
            if not r:
                ctx.feature("exactness.no-occupancy-at-begin")
            req_all += [(ob, d) for d in r]
            alw_all += [(ob, d) for d in a]
        for ob, d in req_all:
            if not any(same(d, p) for p in patches):
                kind = type(ob).__name__ + ("/" + type(ob.prediction).__name__ if getattr(ob, "prediction", None) is not None
                                            else "")
                ctx.violation("C19/exactness/occupancy-of-model-not-drawn/%s" % kind,
                              "obstacle %d: occupancy at/after time_begin=%d (window end %d) %s missing among %d patches" % (
                                  ob.obstacle_id, tb, te, d[0], len(patches)), wit)
        for p in patches:
            if not any(same(d, p) for _, d in alw_all):
                ctx.violation("C19/exactness/drawn-shape-is-no-occupancy-of-the-model-in-window",
                              "patch %s does not match any occupancy the model reports for time steps %d..%d" % (
                                  repr(p)[:160], tb, te), wit)
                break
        # lanelets: exactly the selected ones
        want = [geom.lanelet_ring(la) for la in lanelets if sel is None or la.lanelet_id in sel]
        got = []
        if fills:
            got = [[(float(x), float(y)) for x, y in path.vertices] for path in fills[0].get_paths()]
            got = [g[:-1] if len(g) > 1 and g[0] == g[-1] else g for g in got]
        def in_view(ring):
            xs_, ys_ = [p[0] for p in ring], [p[1] for p in ring]
            return max(xs_) >= view[0] and min(xs_) <= view[1] and max(ys_) >= view[2] and min(ys_) <= view[3]
        # with plot limits only the lanelets that reach into the plotted region are REQUIRED (a renderer may skip what
        # lies outside the view); nothing but selected lanelets may be drawn in any configuration
        need = want if view is None else [w for w in want if in_view(w)]
        if view is not None and need:
            ctx.feature("renderer.lanelets-in-view-required")
        miss = [w for w in need if not any(geom.rings_equal(w, g, 1e-9) for g in got)]
        extra = [g for g in got if not any(geom.rings_equal(w, g, 1e-9) for w in want)]
        if miss:
            ctx.violation("C19/exactness/selected-lanelet-not-drawn", "%d of %d selected lanelets missing (draw_ids=%s)" % (
                len(miss), len(want), sel), wit)
        if extra:
            ctx.violation("C19/exactness/unselected-lanelet-drawn", "%d lanelet polygons drawn that are not selected "
                          "(draw_ids=%s)" % (len(extra), sel), wit)

    # --------------------------------------------------------------------------------------------- propagation
    def groups(p, path="root"):
        out = [(path, p)]
        for f in dataclasses.fields(p):
            v = getattr(p, f.name, None)
            if isinstance(v, BaseParam):
                out += groups(v, path + "." + f.name)
        return out

    def declares(g, name):
        return name in {f.name for f in dataclasses.fields(g)}

    POOL = {"time_begin": [0, 3, 10, 37], "time_end": [10, 37, 200, 5], "antialiased": [True, False],
            "facecolor": ["red", "#123456", "k"], "edgecolor": ["blue", "#654321"], "zorder": [5, 21.5, 30],
            "opacity": [0.3, 1.0, 0.5], "linewidth": [0.1, 2.0], "show_label": [True, False],
            "draw_shape": [True, False], "scale_factor": [0.5, 2.0], "draw_icon": [True, False]}
    n = ctx.pick(150, 8000)
    for i, rng in ctx.cases("propagation", n):
        P = MPDrawParams()
        gs = groups(P)
        seq = []
        last = {}
        replaced = False
        if i % 4 == 1:
            # a nested group is REPLACED by a new group object of its class (params.dynamic_obstacle = DynamicObstacleParams()):
            # from then on the new object is the nested group, and what is set above it reaches it
            pth_r, g_r = gs[1 + (i // 4) % (len(gs) - 1)]
            parent = dict(gs)[pth_r.rsplit(".", 1)[0]]
            try:
                setattr(parent, pth_r.rsplit(".", 1)[1], type(g_r)())
                replaced = True
                seq.append([pth_r, "<replaced by a new %s>" % type(g_r).__name__, None])
                ctx.feature("propagation.after-a-nested-group-was-replaced")
            except Exception as e:  # noqa
                ctx.violation("C19/propagation/replacing-a-group-raises-%s" % type(e).__name__, repr(e)[:200], {"group": pth_r})
            gs = groups(P)
        for step in range(rng.randint(1, 8)):
            path, g = gs[0] if step == 0 and (i % 3 == 0 or replaced) else rng.choice(gs)
            names = [nm for nm in POOL if any(declares(x, nm) for pth, x in gs if pth.startswith(path))]
            if not names:
                continue
            name = rng.choice(names)
            v = rng.choice(POOL[name])
            sub = [(pth, x) for pth, x in gs if pth == path or pth.startswith(path + ".")]
            if any(declares(x, name) and getattr(x, name) == v for _, x in sub):
                ctx.feature("propagation.value-collision")
            seq.append([path, name, v])
            ctx.evaluation()
            ctx.feature("propagation.root" if path == "root" else "propagation.nested")
            try:
                setattr(g, name, v)
            except Exception as e:  # noqa
                ctx.violation("C19/propagation/setattr-raises-%s" % type(e).__name__, repr(e)[:200], {"assignments": seq})
                break
            bad = [pth for pth, x in sub if declares(x, name) and getattr(x, name) != v]
            if bad:
                depth = min(pth.count(".") - path.count(".") for pth in bad)
                ctx.violation("C19/propagation/nested-group-keeps-old-value/depth-%s" % ("1" if depth <= 1 else ">1"),
                              "%s.%s = %r but %s holds %r" % (path, name, v, bad[0], getattr(dict(gs)[bad[0]], name)),
                              {"assignments": seq})
                break
        ctx.fingerprint(["prop", seq])
        if i < 1:
            ctx.sample({"assignments": seq})

    # ------------------------------------------------------------------ every obstacle type x icon / shape / signals
    # totality over the 'configurations' axis that random flag sampling reaches slowly: one obstacle per obstacle type,
    # drawn with icons on (types without an icon fall back to the shape), signals and direction markers on, rasterised.
    from commonroad.scenario.obstacle import ObstacleType
    from commonroad.scenario.scenario import Scenario
    from vf.gen.objects import Gen
    types = list(ObstacleType)
    for i, rng in ctx.cases("types", len(types) * ctx.pick(1, 6)):
        ty = types[i % len(types)]
        G = Gen(rng)
        try:
            sc = Scenario(0.1)
            ob = G.dynamic_obstacle(500 + i, prediction_kind="trajectory" if i % 2 == 0 else "set")
            ob.obstacle_type = ty
            sc.add_objects(ob)
            so = G.static_obstacle(900 + i)
            so.obstacle_type = ty
            sc.add_objects(so)
        except Exception as e:  # noqa
            ctx.violation("C19/harness/types-%s" % type(e).__name__, repr(e)[:200], {"type": ty.name})
            continue
        for icon in (True, False):
            P = MPDrawParams()
            P.time_begin = ob.initial_state.time_step
            P.time_end = P.time_begin + 3
            P.dynamic_obstacle.draw_icon = icon
            P.static_obstacle.draw_icon = icon if hasattr(P.static_obstacle, "draw_icon") else False
            P.dynamic_obstacle.draw_signals = True
            P.dynamic_obstacle.draw_direction = True
            P.dynamic_obstacle.show_label = True
            P.dynamic_obstacle.draw_bounding_box = True
            ctx.evaluation()
            ctx.fingerprint(["type", ty.name, icon, i])
            ctx.feature("types.%s" % ("icon" if icon else "shape"))
            fig = plt.figure(figsize=(3, 3))
            stage = "draw"
            try:
                rnd = MPRenderer(draw_params=P, ax=fig.gca())
                sc.draw(rnd)
                stage = "render"
                rnd.render()
                stage = "canvas.draw"
                fig.canvas.draw()
            except Exception as e:  # noqa
                import traceback
                tb_ = traceback.extract_tb(e.__traceback__)
                site = next((f.name for f in reversed(tb_) if "commonroad" in f.filename), "?")
                ctx.violation("C19/totality/obstacle-type/%s/raises-%s/%s/%s" % (
                    stage, type(e).__name__, site, "icon" if icon else "shape"), "%s: %r" % (ty.name, e),
                    {"obstacle_type": ty.name, "draw_icon": icon})
            finally:
                plt.close(fig)

    # ------------------------------------------------------------------ trajectory drawing x time windows x state kinds
    # a predicted trajectory whose states have exact and uncertain (region-valued) positions in runs: every window
    # (before / inside / across / after the runs, single steps) in every trajectory drawing mode
    import commonroad.scenario.state as st_
    from commonroad.geometry.shape import Circle as _Ci, Rectangle as _Re
    from commonroad.prediction.prediction import TrajectoryPrediction as _TP
    from commonroad.scenario.obstacle import DynamicObstacle as _DO
    from commonroad.scenario.trajectory import Trajectory as _Tr
    layouts = ["EEEUUUEEEE", "UUUEEE", "EUEUEU", "UUUU", "EEEE"]
    for i, rng in ctx.cases("trajectory-windows", len(layouts) * ctx.pick(1, 4)):
        lay = layouts[i % len(layouts)]
        t0 = rng.choice([0, 2])
        states = []
        for k, c in enumerate(lay):
            p = np.array([5.0 * k, 1.0 + 0.1 * k])
            pos = p if c == "E" else (_Ci(0.8, p) if k % 2 else _Re(1.5, 0.7, p, 0.2))
            states.append(st_.CustomState(time_step=t0 + 1 + k, position=pos, orientation=0.1, velocity=5.0))
        shape = _Re(4.0, 1.8)
        ob = _DO(700 + i, ObstacleType.CAR, shape, st_.InitialState(time_step=t0, position=np.array([-5.0, 1.0]),
                                                                    orientation=0.0, velocity=5.0),
                 _TP(_Tr(t0 + 1, states), shape))
        sc = Scenario(0.1)
        sc.add_objects(ob)
        ctx.feature("trajectory-windows.layout-" + lay)
        n_ = len(lay)
        windows = [(0, 0), (t0, t0), (t0 + 1, t0 + 1)] + [(t0 + 1 + a, t0 + 1 + b) for a in range(n_) for b in range(a, n_)
                                                          if b - a in (0, 1, 2, n_ - 1)] + [(t0 + n_ + 3, t0 + n_ + 9)]
        for (tb, te) in windows:
            for mode in ("dotted", "continuous", "continuous+occupancies", "off"):
                P = MPDrawParams()
                P.time_begin, P.time_end = tb, te
                P.dynamic_obstacle.trajectory.draw_trajectory = mode != "off"
                P.dynamic_obstacle.trajectory.draw_continuous = mode.startswith("continuous")
                P.dynamic_obstacle.occupancy.draw_occupancies = mode.endswith("occupancies")
                ctx.evaluation()
                ctx.fingerprint(["trajwin", lay, t0, tb, te, mode])
                ctx.feature("trajectory-windows.mode-" + mode)
                fig = plt.figure(figsize=(3, 3))
                stage = "draw"
                try:
                    if mode == "off":
                        # the plot follows this very obstacle (limits relative to where it is at the begin of the window)
                        rnd = MPRenderer(draw_params=P, ax=fig.gca(), focus_obstacle=ob, plot_limits=[-15.0, 15.0, -10.0, 10.0])
                        ctx.feature("trajectory-windows.renderer-focused-on-the-obstacle")
                    else:
                        rnd = MPRenderer(draw_params=P, ax=fig.gca())
                    sc.draw(rnd)
                    stage = "render"
                    rnd.render()
                except Exception as e:  # noqa
                    import traceback
                    tb__ = traceback.extract_tb(e.__traceback__)
                    site = next((f.name for f in reversed(tb__) if "commonroad" in f.filename), "?")
                    ctx.violation("C19/totality/trajectory-window/%s/raises-%s/%s/%s" % (stage, type(e).__name__, site, mode),
                                  "layout %s (E exact, U uncertain position) t0=%d window [%d, %d]: %r" % (lay, t0, tb, te, e),
                                  {"layout": lay, "t0": t0, "window": [tb, te], "mode": mode})
                finally:
                    plt.close(fig)

    # ------------------------------------------------------------------------------- traffic lights at the selected time
    # the lamp symbol and the colouring of the controlled lanelet's centre line show the state the model reports for the
    # selected begin time step -- whichever way the parameters reach the renderer
    import os as _os
    import matplotlib.colors as _mc
    from matplotlib.offsetbox import AnnotationBbox as _AB, OffsetImage as _OI
    from PIL import Image as _Im
    import commonroad.visualization.traffic_sign as _tsm
    from commonroad.scenario.lanelet import LaneletNetwork as _LN
    from commonroad.scenario.traffic_light import (TrafficLight as _TL, TrafficLightCycle as _TC,
                                                   TrafficLightCycleElement as _TE, TrafficLightState as _TS)
    ref_img = {}
    for s_ in (_TS.RED, _TS.GREEN, _TS.YELLOW, _TS.RED_YELLOW):
        pth_ = _os.path.join(_tsm.traffic_sign_path, "traffic_light_state_" + str(s_.value) + ".png")
        if _os.path.exists(pth_):
            ref_img[s_] = np.asarray(_Im.open(pth_))

    def shown_symbols(artists):
        found = []

        def walk(box):
            if isinstance(box, _OI):
                data = np.asarray(box.get_data())
                for s__, img in ref_img.items():
                    if img.shape == data.shape and np.array_equal(img, data):
                        found.append(s__)
            for ch in box.get_children():
                walk(ch)
        for a_ in artists:
            if isinstance(a_, _AB):
                walk(a_.offsetbox)
        return found

    cycles = [[(_TS.RED, 10), (_TS.GREEN, 10)], [(_TS.GREEN, 3), (_TS.YELLOW, 2), (_TS.RED, 4), (_TS.RED_YELLOW, 1)],
              [(_TS.RED, 1), (_TS.GREEN, 1)]]
    routes = ["renderer-parameters", "parameters-passed-to-scenario.draw", "parameters-passed-to-network.draw",
              "second-frame-of-a-reused-renderer", "parameters-passed-to-light.draw", "light-group-passed-to-light.draw"]
    for i, rng in ctx.cases("lights-at-selected-time", len(cycles) * len(routes) * ctx.pick(2, 20)):
        if len(ref_img) < 4:
            ctx.counter("light-symbol-images-not-found")
            break
        cyc_def = cycles[i % len(cycles)]
        route = routes[(i // len(cycles)) % len(routes)]
        off = [0, 2][(i // 12) % 2]
        total = sum(d for _, d in cyc_def)
        xs_ = np.linspace(0.0, 40.0, 5)
        mkl = lambda lid, x0: Lanelet_(np.stack([xs_ + x0, np.full(5, 2.0)], axis=1),  # noqa
                                       np.stack([xs_ + x0, np.full(5, 0.0)], axis=1),
                                       np.stack([xs_ + x0, np.full(5, -2.0)], axis=1), lid)
        from commonroad.scenario.lanelet import Lanelet as Lanelet_
        net = _LN()
        net.add_lanelet(mkl(1, 0.0))
        net.add_lanelet(mkl(2, 40.0))
        light = _TL(100, np.array([40.0, 3.0]), _TC([_TE(s__, d) for s__, d in cyc_def], time_offset=off))
        net.add_traffic_light(light, {1})
        sc = Scenario(0.1)
        sc.add_objects(net)
        ctx.feature("lights-at-selected-time.route-" + route)
        # time steps at which the state differs from the state at step 0 are the telling ones: one of them first
        tbs = [t for t in range(0, 3 * total) if light.get_state_at_time_step(t) != light.get_state_at_time_step(0)][:1] + \
              [rng.randint(0, 3 * total) for _ in range(2)]
        for tb in tbs:
            exp = light.get_state_at_time_step(tb)
            ctx.evaluation()
            ctx.fingerprint(["light-at", i % len(cycles), route, off, tb])
            wit = {"cycle": [(s__.value, d) for s__, d in cyc_def], "offset": off, "time_begin": tb, "route": route}
            fig = plt.figure(figsize=(3, 3))
            try:
                P = MPDrawParams()
                P.time_begin = tb
                if route == "renderer-parameters":
                    rnd = MPRenderer(ax=fig.gca())
                    rnd.draw_params.time_begin = tb
                    sc.draw(rnd)
                elif route == "parameters-passed-to-scenario.draw":
                    rnd = MPRenderer(ax=fig.gca())
                    sc.draw(rnd, P)
                elif route == "parameters-passed-to-network.draw":
                    rnd = MPRenderer(ax=fig.gca())
                    sc.lanelet_network.draw(rnd, P)
                elif route == "parameters-passed-to-light.draw":
                    # the light alone, with the complete parameter object (every draw method accepts its own group or all)
                    rnd = MPRenderer(ax=fig.gca())
                    light.draw(rnd, P)
                elif route == "light-group-passed-to-light.draw":
                    rnd = MPRenderer(ax=fig.gca())
                    light.draw(rnd, P.traffic_light)
                else:
                    P0 = MPDrawParams()
                    P0.time_begin = 0
                    rnd = MPRenderer(draw_params=P0, ax=fig.gca())
                    sc.draw(rnd)
                    rnd.render()
                    rnd.draw_params = P
                    sc.draw(rnd)
                line_cols = [_mc.to_hex(a_.get_color()) for a_ in rnd.dynamic_artists if hasattr(a_, "get_color")]
                symbols = shown_symbols(rnd.render())
            except Exception as e:  # noqa
                ctx.violation("C19/light-at-selected-time/raises-%s/%s" % (type(e).__name__, route), repr(e)[:200], wit)
                continue
            finally:
                plt.close(fig)
            ctx.feature("lights-at-selected-time.checked")
            if exp != light.get_state_at_time_step(0):
                ctx.feature("lights-at-selected-time.state-differs-from-step-0")
            if symbols != [exp]:
                ctx.violation("C19/light-at-selected-time/lamp-symbol-shows-another-state/%s" % route,
                              "time_begin=%d: symbol shows %s, the model reports %s" % (
                                  tb, [s__.value for s__ in symbols], exp.value), wit)
            exp_hex = {_TS.RED: P.traffic_light.red_color, _TS.GREEN: P.traffic_light.green_color,
                       _TS.YELLOW: P.traffic_light.yellow_color, _TS.RED_YELLOW: P.traffic_light.red_yellow_color}[exp]
            if line_cols and _mc.to_hex(exp_hex) not in line_cols:
                ctx.violation("C19/light-at-selected-time/centre-line-coloured-for-another-state/%s" % route,
                              "time_begin=%d: line colours %s, the model reports %s (%s)" % (
                                  tb, line_cols, exp.value, _mc.to_hex(exp_hex)), wit)
