"""C06 — spatial lookups agree with the geometry they index; shapes' containment test == exported geometry == parameters.

Monitors: icontract postconditions on LaneletNetwork.find_lanelet_by_position / find_lanelet_by_shape (vf.monitors.lookup)
judge every call; the driver below produces lattice networks through every construction route and additionally
compares contains_points / get_obstacles / map_obstacles_to_lanelets / filter_obstacles_in_network and the
shape-level coherence with the same brute-force truth."""
import copy
import math
import os
import pickle

CLAIM = True
RULE = ("lattice networks (1..8 lanelets: straight, wobbling, adjacent with shared boundary, crossing/overlapping, "
        "nested, successor, disjoint) x construction routes (list, one-by-one, scenario, XML, protobuf, deepcopy, "
        "pickle, cut-out copy, add-remove-add, copy-then-edit-both) x query points (vertices, edge midpoints, interior, "
        "near outside, far, random floats) x query shapes (aligned/touching/rotated rectangles, circles, polygons); "
        "truth from raw vertices (exact rational on the lattice, 1e-9 band elsewhere, 0.2% band for circle "
        "discretisation). distinct = fingerprint of (route, lanelet rings); non-trivial = >=2 lanelets")
ANCHORS = ["LaneletNetwork.find_lanelet_by_position", "LaneletNetwork.find_lanelet_by_shape", "Lanelet.contains_points",
           "Lanelet.get_obstacles", "LaneletNetwork.map_obstacles_to_lanelets",
           "LaneletNetwork.filter_obstacles_in_network", "LaneletNetwork._create_strtree", "Circle.contains_point",
           "Polygon.contains_point", "Rectangle.contains_point", "LaneletNetwork.__setstate__",
           "LaneletNetwork.__deepcopy__"]
REQUIRED = ["route.list", "route.one-by-one", "route.scenario", "route.xml", "route.protobuf", "route.deepcopy",
            "route.pickle", "route.cutout-copy", "route.add-remove-add", "route.copy-then-edit-both",
            "contract.find_lanelet_by_position", "contract.find_lanelet_by_shape/Rectangle",
            "contract.find_lanelet_by_shape/Circle", "contract.find_lanelet_by_shape/Polygon", "point.vertex",
            "point.edge-mid", "shape-coherence.Circle", "shape-coherence.Rectangle", "shape-coherence.Polygon",
            "shape-coherence.ShapeGroup", "get_obstacles", "map_obstacles_to_lanelets", "contains_points",
            "kind.adjacent", "kind.crossing", "kind.nested", "provenance.placed-angle-0", "provenance.placed",
            "provenance.translate_rotate", "provenance.deepcopy", "provenance.after-setters",
            "provenance.source-object-used-before",
            "obstacle-absent-at-query-time", "contains_points.single-point", "route.deferred-index", "route.pending-index", "route.merged", "qshape.u-polygon-around-lanelet-end", "get_obstacles.at-a-later-time-step", "static-obstacle-with-later-time-step", "empty-network.constructor", "empty-network.fresh-scenario", "empty-network.emptied-by-removal", "qshape.group-near-member-then-member-on-lanelet", "obstacle-with-group-shape", "contract.find_lanelet_by_shape/ShapeGroup", "route.deferred-remove",
            "route.translate-before-index"]
ASSUMPTIONS = ["lanelet polygons are simple (strips with strictly increasing abscissa)",
               "circle queries within 0.2% of the radius of a boundary are not judged (shapely discs are 64-gons)"]
SHARDS = {"quick": 4, "thorough": 16}
ROUTES = ["list", "one-by-one", "scenario", "xml", "protobuf", "deepcopy", "pickle", "cutout-copy", "add-remove-add",
          "copy-then-edit-both", "deferred-index", "deferred-remove", "translate-before-index", "pending-index", "merged"]


def build(route, lanelets, rng):
    """returns list of (label, network) built from copies of the lanelets via the route"""
    from commonroad.scenario.lanelet import LaneletNetwork
    from commonroad.scenario.scenario import Scenario, ScenarioID, Tag
    from vf import io
    ls = [copy.deepcopy(l) for l in lanelets]
    if route == "list":
        return [("list", LaneletNetwork.create_from_lanelet_list(ls))]
    if route == "one-by-one":
        net = LaneletNetwork()
        for la in ls:
            net.add_lanelet(la)
        return [(route, net)]
    if route in ("scenario", "xml", "protobuf"):
        sc = Scenario(0.1, ScenarioID(), author="a", tags={Tag.URBAN}, affiliation="b", source="c")
        sc.add_objects(ls)
        if route == "scenario":
            return [(route, sc.lanelet_network)]
        sc2, _ = io.roundtrip(sc, None, "xml" if route == "xml" else "pb", precision=6)
        return [(route, sc2.lanelet_network)]
    base = LaneletNetwork.create_from_lanelet_list(ls)
    if route == "deepcopy":
        return [(route, copy.deepcopy(base)), (route + "-original", base)]
    if route == "pickle":
        return [(route, pickle.loads(pickle.dumps(base))), (route + "-original", base)]
    if route == "cutout-copy":
        return [(route, LaneletNetwork.create_from_lanelet_network(base))]
    if route == "add-remove-add":
        net = LaneletNetwork()
        for la in ls:
            net.add_lanelet(la)
        victim = rng.choice(ls)
        net.remove_lanelet(victim.lanelet_id)
        res = [(route + "-removed", copy.copy(net))] if False else []
        net.add_lanelet(copy.deepcopy(victim))
        return res + [(route, net)]
    if route == "merged":
        # the network grows by the lanelets of ANOTHER network (add_lanelets_from_network); an id that exists already is
        # refused with a warning -- what was accepted before it belongs to the network like any other lanelet
        k_ = max(1, len(ls) // 2)
        net = LaneletNetwork.create_from_lanelet_list(ls[:k_])
        other = LaneletNetwork()
        for la in ls[k_:]:
            other.add_lanelet(la)
        if rng.random() < 0.6 or len(ls) < 2:
            other.add_lanelet(copy.deepcopy(ls[0]))   # clashes with a lanelet of the receiving network
        net.add_lanelets_from_network(other)
        return [("merged", net)]
    if route == "pending-index":
        # a lanelet was added with rtree=False and the index has NOT been re-built yet (documented batch usage: look-ups
        # through the index are the caller's business until then). The queries that are defined on the lanelets' polygons
        # -- contains_points, get_obstacles, map_obstacles_to_lanelets, filter_obstacles_in_network -- do not depend on it
        from vf.gen import lattice
        net = LaneletNetwork.create_from_lanelet_list(ls[:-1]) if len(ls) > 1 else LaneletNetwork()
        if len(ls) > 1:
            net.find_lanelet_by_position([ls[0].center_vertices[0]])  # (the index exists and has been used)
        net.add_lanelet(copy.deepcopy(ls[-1]), rtree=False)
        return [("pending-index", net)]
    if route in ("deferred-index", "deferred-remove", "translate-before-index"):
        # add_lanelet / remove_lanelet with rtree=False defer the re-build of the spatial index (documented batch usage);
        # the next indexing operation must leave an index that describes exactly the lanelets the network holds then
        import numpy as np
        from vf.gen import lattice
        net = LaneletNetwork()
        if route == "deferred-index":
            for la in ls[:-1]:
                net.add_lanelet(la, rtree=False)
            net.add_lanelet(ls[-1])
            return [(route, net)]
        if route == "deferred-remove":
            for la in ls:
                net.add_lanelet(la)
            ghost = lattice.lanelet(9003, (ls[0].left_vertices.copy(), ls[0].center_vertices.copy(),
                                           ls[0].right_vertices.copy()))
            far = lattice.lanelet(9004, lattice.strip(rng, 60.0, -40.0, 2, 2.0, 2.0, wobble=False))
            net.add_lanelet(ghost)
            net.add_lanelet(far)
            net.remove_lanelet(9003, rtree=False)
            net.remove_lanelet(9004, rtree=False)
            how = rng.choice(["add", "remove", "none"])
            if how == "add":
                net.add_lanelet(lattice.lanelet(9005, lattice.strip(rng, -60.0, -40.0, 2, 2.0, 2.0, wobble=False)))
            elif how == "remove" and len(ls) > 1:
                net.remove_lanelet(ls[-1].lanelet_id)
            return [(route, net), (route + "-deepcopy", copy.deepcopy(net)),
                    (route + "-pickle", pickle.loads(pickle.dumps(net)))]
        for la in ls:
            net.add_lanelet(la, rtree=False)
        net.translate_rotate(np.array([lattice.q(rng, -20, 20), lattice.q(rng, -20, 20)]), 0.0)
        net.add_lanelet(lattice.lanelet(9006, lattice.strip(rng, 80.0, 80.0, 2, 2.0, 2.0, wobble=False)))
        return [(route, net)]
    if route == "copy-then-edit-both":
        from vf.gen import lattice
        cp = copy.deepcopy(base)
        if rng.random() < 0.5:
            cp, base = base, cp
        extra1 = lattice.lanelet(9001, lattice.strip(rng, 40.0, 40.0, 2, 2.0, 2.0, wobble=False))
        extra2 = lattice.lanelet(9002, lattice.strip(rng, -40.0, 40.0, 2, 2.0, 2.0, wobble=False))
        victim = rng.choice(ls).lanelet_id
        # first structural edit on one, later edit on the other
        if rng.random() < 0.5:
            cp.remove_lanelet(victim)
        else:
            cp.add_lanelet(extra1)
        if rng.random() < 0.5:
            base.add_lanelet(extra2)
        else:
            v2 = rng.choice(ls).lanelet_id
            base.remove_lanelet(v2)
        return [(route + "-a", base), (route + "-b", cp)]
    raise ValueError(route)


def run(ctx):
    import numpy as np
    from commonroad.geometry.shape import Circle, Polygon, Rectangle, ShapeGroup
    from commonroad.scenario.obstacle import ObstacleType, StaticObstacle
    from commonroad.scenario.state import InitialState
    from vf import monitors
    from vf.gen import lattice
    from vf.gen.objects import Gen
    from vf.monitors import lookup
    from vf.oracle import geom
    monitors.set_sink(ctx)
    lookup.install()

    n = ctx.pick(300, 20000)
    for i, rng in ctx.cases("networks", n):
        lanelets, kinds = lattice.gen_lanelets(rng, nmax=8)
        route = ROUTES[i % len(ROUTES)]
        for k in kinds:
            ctx.feature("kind." + k)
        try:
            nets = build(route, lanelets, rng)
        except Exception as e:  # noqa
            ctx.violation("C06/build/raises-%s/%s" % (type(e).__name__, route), repr(e),
                          {"route": route, "lanelets": [l.right_vertices.tolist() for l in lanelets]})
            continue
        ctx.feature("route." + route)
        if len(lanelets) > 1:
            ctx.fingerprint([route, [l.right_vertices.tolist() for l in lanelets]])
        if i < 2:
            ctx.sample({"route": route, "kinds": kinds,
                        "lanelets": {l.lanelet_id: {"right": l.right_vertices.tolist(),
                                                    "left": l.left_vertices.tolist()} for l in lanelets}})
        G = Gen(rng)
        for label, net in nets:
            cur = net.lanelets
            if not cur:
                continue
            ctx.evaluation()
            pts = lattice.lattice_points(rng, cur)
            for kind, _ in pts:
                ctx.feature("point." + kind)
            pending = label == "pending-index"
            try:
                if pending:
                    raise StopIteration
                # one call with all points and single calls: the contracts judge each returned list
                net.find_lanelet_by_position([np.array(p) for _, p in pts])
                for _, p in pts[:3]:
                    net.find_lanelet_by_position([np.array(p)])
            except StopIteration:
                pass
            except Exception as e:  # noqa
                ctx.violation("C06/find_lanelet_by_position/raises-%s/%s" % (type(e).__name__, label.split("-")[0]),
                              repr(e), {"route": label})
            shapes = lattice.query_shapes(rng, cur, G)
            if pending:
                # obstacles on the lanelet that is not indexed yet come first
                new_la = cur[-1]
                c_ = new_la.center_vertices[len(new_la.center_vertices) // 2]
                shapes = [("rect-on-pending-lanelet", Rectangle(1.0, 0.5, np.array([float(c_[0]), float(c_[1])]), 0.0),
                           False)] + list(shapes)
            for kind, shp, exact in shapes:
                ctx.feature("qshape." + kind)
                ctx.evaluation()
                if pending:
                    continue
                try:
                    net.find_lanelet_by_shape(shp)
                except Exception as e:  # noqa
                    ctx.violation("C06/find_lanelet_by_shape/raises-%s/%s" % (type(e).__name__, type(shp).__name__),
                                  repr(e), {"route": label, "shape": lookup._shape_wit(shp)})
            # Lanelet.contains_points vs truth
            la = rng.choice(cur)
            ring = geom.lanelet_ring(la)
            arr = np.array([p for _, p in pts])
            try:
                got = la.contains_points(arr)
                ctx.feature("contains_points")
                one = la.contains_points(arr[:1])  # a single query point is a query too
                ctx.feature("contains_points.single-point")
                if [bool(x) for x in one] != [bool(got[0])]:
                    ctx.violation("C06/Lanelet.contains_points/single-point-differs", "%s vs %s" % (one, got[0]),
                                  {"point": pts[0]})
                for (kind, p), g in zip(pts, got):
                    ctx.evaluation()
                    v = geom.point_in_ring(p, ring, exact=lookup.is_lattice_num(p[0]) and lookup.is_lattice_num(p[1]))
                    if v is None:
                        ctx.skipped()
                    elif bool(g) != v:
                        ctx.violation("C06/Lanelet.contains_points/wrong/" + kind, "point %s lanelet %d: got %s truth %s"
                                      % (p, la.lanelet_id, g, v), {"point": p, "ring": ring})
            except Exception as e:  # noqa
                ctx.violation("C06/Lanelet.contains_points/raises-%s" % type(e).__name__, repr(e), {"route": label})
            # obstacles: static obstacles whose occupancy is the query shape placed at its centre
            obstacles, descs = [], {}
            for j, (kind, shp, exact) in enumerate(shapes[:4]):
                if isinstance(shp, Rectangle):
                    # (a static obstacle occupies the same region at all times, whatever time step its state carries)
                    o = StaticObstacle(500 + j, ObstacleType.CAR, Rectangle(shp.length, shp.width),
                                       InitialState(position=shp.center, orientation=shp.orientation, time_step=[0, 4][j % 2]))
                    if j % 2:
                        ctx.feature("static-obstacle-with-later-time-step")
                elif isinstance(shp, Circle):
                    o = StaticObstacle(500 + j, ObstacleType.PEDESTRIAN, Circle(shp.radius),
                                       InitialState(position=shp.center, orientation=0.0, time_step=0))
                elif isinstance(shp, ShapeGroup):
                    o = StaticObstacle(500 + j, ObstacleType.TRUCK, shp,
                                       InitialState(position=np.array([0.0, 0.0]), orientation=0.0, time_step=0))
                    ctx.feature("obstacle-with-group-shape")
                else:
                    continue
                obstacles.append(o)
                descs[o.obstacle_id] = (geom.describe(shp), exact)
            if obstacles and isinstance(shapes[0][1], Rectangle):
                # an obstacle that enters the scenario later has no occupancy at time step 0: it is on no lanelet then
                from commonroad.scenario.obstacle import DynamicObstacle
                shp0 = shapes[0][1]
                late = DynamicObstacle(599, ObstacleType.CAR, Rectangle(shp0.length, shp0.width), InitialState(
                    position=shp0.center, orientation=shp0.orientation, time_step=rng.choice([1, 3])))
                obstacles.append(late)
                descs[599] = None
                ctx.feature("obstacle-absent-at-query-time")
            rects_ = [shp for _, shp, _ in shapes if isinstance(shp, Rectangle)]
            if len(rects_) >= 2 and not pending:
                # a moving obstacle asked at a LATER time step: at step 2 it stands where the second rectangle is, at step 1
                # where the first one is, at step 0 far away from everything
                from commonroad.prediction.prediction import TrajectoryPrediction
                from commonroad.scenario.obstacle import DynamicObstacle
                from commonroad.scenario.state import KSState
                from commonroad.scenario.trajectory import Trajectory
                r1, r2 = rects_[0], rects_[1]
                body = Rectangle(r1.length, r1.width)
                mover = DynamicObstacle(598, ObstacleType.CAR, body, InitialState(
                    position=np.array([7e3, -7e3]), orientation=0.0, time_step=0), TrajectoryPrediction(Trajectory(1, [
                        KSState(time_step=1, position=r1.center, orientation=r1.orientation, velocity=1.0, steering_angle=0.0),
                        KSState(time_step=2, position=r2.center, orientation=r2.orientation, velocity=1.0, steering_angle=0.0)]),
                        body))
                ctx.feature("get_obstacles.at-a-later-time-step")
                d1 = geom.describe(r1)
                d2 = geom.describe(Rectangle(r1.length, r1.width, r2.center, r2.orientation))
                try:
                    for la2 in cur:
                        ring2 = geom.lanelet_ring(la2)
                        for t_, d_ in ((0, None), (1, d1), (2, d2), (3, None)):
                            ctx.evaluation()
                            got_ = 598 in {o.obstacle_id for o in la2.get_obstacles([mover], t_)}
                            v_ = False if d_ is None else geom.desc_ring_relation(d_, ring2)
                            if v_ is None:
                                ctx.skipped()
                            elif got_ != v_:
                                ctx.violation("C06/Lanelet.get_obstacles/wrong-at-time-step/%s" % (
                                    "outside-horizon-or-far-away" if d_ is None else "inside-horizon"),
                                    "moving obstacle at time step %d on lanelet %d: got %s truth %s" % (
                                        t_, la2.lanelet_id, got_, v_), {"route": label, "t": t_})
                except Exception as e:  # noqa
                    ctx.violation("C06/Lanelet.get_obstacles/raises-%s/at-a-later-time-step" % type(e).__name__, repr(e)[:200],
                                  {"route": label})
            if obstacles:
                try:
                    mapping = net.map_obstacles_to_lanelets(obstacles)
                    ctx.feature("map_obstacles_to_lanelets")
                    filt = net.filter_obstacles_in_network(obstacles)
                    got_any = set()
                    halved_only = set()
                    for la2 in cur:
                        ring2 = geom.lanelet_ring(la2)
                        got_ids = {o.obstacle_id for o in mapping.get(la2.lanelet_id, [])}
                        single = {o.obstacle_id for o in la2.get_obstacles(obstacles)}
                        ctx.feature("get_obstacles")
                        if single != got_ids:
                            ctx.violation("C06/map_obstacles_to_lanelets/disagrees-with-get_obstacles",
                                          "%s vs %s" % (sorted(got_ids), sorted(single)), {"route": label})
                        for o in obstacles:
                            ctx.evaluation()
                            if descs[o.obstacle_id] is None:
                                if o.obstacle_id in got_ids or o in filt:
                                    ctx.violation("C06/Lanelet.get_obstacles/obstacle-absent-at-time-step-returned",
                                                  "obstacle %d has no occupancy at time step 0" % o.obstacle_id,
                                                  {"route": label})
                                continue
                            d, exact = descs[o.obstacle_id]
                            v = geom.desc_ring_relation(d, ring2, exact=exact and lookup.is_lattice_ring(ring2))
                            if v is None:
                                ctx.skipped()
                                got_any.add(("?", o.obstacle_id))
                                continue
                            if v:
                                got_any.add((True, o.obstacle_id))
                            if (o.obstacle_id in got_ids) != v:
                                circ = geom.has_circle(d)
                                va = geom.desc_ring_relation(geom.desc_halved(d), ring2) if circ else "not-a-circle"
                                if circ and (va is None or va == (o.obstacle_id in got_ids)):
                                    halved_only.add(o.obstacle_id)
                                    ctx.violation("C06/Lanelet.get_obstacles/wrong/circle/as-if-circle-radius-halved",
                                                  "obstacle %s on lanelet %d: got %s truth %s" % (
                                                      d, la2.lanelet_id, o.obstacle_id in got_ids, v),
                                                  {"obstacle": d, "ring": ring2})
                                    continue
                                ctx.violation("C06/Lanelet.get_obstacles/wrong/%s" % d[0],
                                              "obstacle %s on lanelet %d: got %s truth %s" % (
                                                  d, la2.lanelet_id, o.obstacle_id in got_ids, v),
                                              {"obstacle": d, "ring": ring2})
                    truth_in = {oid for f, oid in got_any if f is True}
                    unsure = {oid for f, oid in got_any if f == "?"}
                    fids = {o.obstacle_id for o in filt}
                    bad = (truth_in - fids) | (fids - truth_in - unsure)
                    if bad and bad <= halved_only:
                        ctx.violation("C06/filter_obstacles_in_network/wrong/as-if-circle-radius-halved",
                                      "got %s truth %s" % (sorted(fids), sorted(truth_in)), {"route": label})
                    elif bad:
                        ctx.violation("C06/filter_obstacles_in_network/wrong",
                                      "got %s truth %s (undecided %s)" % (sorted(fids), sorted(truth_in), sorted(unsure)),
                                      {"route": label})
                except Exception as e:  # noqa
                    ctx.violation("C06/map_obstacles_to_lanelets/raises-%s" % type(e).__name__, repr(e), {"route": label})

    # ------------------------------------------------------------------------- networks without any lanelet
    # a network that holds no lanelet (yet / any more) answers every look-up with "nothing" -- however it came to be empty
    from commonroad.scenario.lanelet import LaneletNetwork
    from commonroad.scenario.scenario import Scenario
    for i, rng in ctx.cases("empty-networks", ctx.pick(8, 200)):
        how = ["constructor", "fresh-scenario", "from-empty-list", "emptied-by-removal"][i % 4]
        if how == "constructor":
            net = LaneletNetwork()
        elif how == "fresh-scenario":
            net = Scenario(0.1).lanelet_network
        elif how == "from-empty-list":
            net = LaneletNetwork.create_from_lanelet_list([])
        else:
            ls_, _ = lattice.gen_lanelets(rng, nmax=3)
            net = LaneletNetwork.create_from_lanelet_list(ls_)
            for la_ in list(net.lanelets):
                net.remove_lanelet(la_.lanelet_id)
        ctx.feature("empty-network." + how)
        G = Gen(rng)
        pts_ = [np.array([rng.uniform(-5, 5), rng.uniform(-5, 5)]) for _ in range(rng.randint(1, 3))]
        shp_ = [Rectangle(2.0, 1.0, pts_[0], 0.3), Circle(1.5, pts_[0]), Polygon(np.array([[0.0, 0.0], [2.0, 0.0], [0.0, 2.0]])),
                ShapeGroup([Rectangle(1.0, 1.0), Circle(1.0, np.array([3.0, 0.0]))])]
        ob_ = StaticObstacle(5, ObstacleType.CAR, Rectangle(2.0, 1.0), InitialState(position=pts_[0], orientation=0.0,
                                                                                  time_step=0))
        calls = [("find_lanelet_by_position", lambda: net.find_lanelet_by_position(pts_), [[] for _ in pts_])] + \
                [("find_lanelet_by_shape", (lambda s_=s_: net.find_lanelet_by_shape(s_)), []) for s_ in shp_] + \
                [("map_obstacles_to_lanelets", lambda: net.map_obstacles_to_lanelets([ob_]), {}),
                 ("filter_obstacles_in_network", lambda: net.filter_obstacles_in_network([ob_]), [])]
        for nm_, fn_, exp_ in calls:
            ctx.evaluation()
            ctx.fingerprint(["empty", how, nm_, i])
            try:
                got_ = fn_()
            except Exception as e:  # noqa
                ctx.violation("C06/%s/raises-%s/network-without-lanelets/%s" % (nm_, type(e).__name__, how), repr(e)[:200],
                              {"how": how})
                continue
            if [list(x) for x in got_] != exp_ if isinstance(exp_, list) and exp_ and isinstance(exp_[0], list) else \
                    (dict(got_) if isinstance(exp_, dict) else list(got_)) != exp_:
                ctx.violation("C06/%s/non-empty-answer-of-a-network-without-lanelets/%s" % (nm_, how), repr(got_)[:200],
                              {"how": how})

    # ------------------------------------------------------------------------- shape coherence (no network involved)
    import shapely.geometry as sg
    n = ctx.pick(400, 30000)
    for i, rng in ctx.cases("shape-coherence", n):
        G = Gen(rng)
        kind = ["Rectangle", "Circle", "Polygon", "ShapeGroup"][i % 4]
        shp = {"Rectangle": G.rectangle, "Circle": G.circle, "Polygon": G.polygon, "ShapeGroup": G.shape_group}[kind]()
        # provenance: shapes reach users as constructed objects, as occupancies (rotate_translate_local, also with angle
        # exactly 0.0), as transformed or copied objects; the same coherence is demanded of every one of them
        prov = ["constructed", "placed-angle-0", "placed", "translate_rotate-angle-0", "translate_rotate",
                "deepcopy", "after-setters"][(i // 4) % 7]
        if (i // 28) % 2 == 1:
            # the source object has been USED before (its vertices / planar geometry were asked for): what it may have
            # computed for itself must not leak into the objects derived from it
            for m_ in (shp.shapes if kind == "ShapeGroup" else [shp]):
                _ = m_.shapely_object, getattr(m_, "vertices", None), m_.contains_point(np.array([0.0, 0.0]))
            if kind == "Rectangle" and (i // 56) % 2 == 1:
                shp = type(shp)(shp.length, shp.width, shp.center, 0.0)   # axis-aligned in its own frame, off-centre
                _ = shp.vertices, shp.shapely_object
            ctx.feature("provenance.source-object-used-before")
        try:
            tr = np.array([rng.uniform(-40, 40), rng.uniform(-40, 40)])
            if prov.startswith("placed"):
                shp = shp.rotate_translate_local(tr, 0.0 if prov.endswith("0") else rng.uniform(-3, 3))
            elif prov.startswith("translate_rotate"):
                shp = shp.translate_rotate(tr, 0.0 if prov.endswith("0") else rng.uniform(-3, 3))
            elif prov == "deepcopy":
                import copy
                shp = copy.deepcopy(shp)
            elif prov == "after-setters":
                # the object has exported its geometry once (whatever it computes lazily exists now) and is then
                # re-parameterised through its public setters
                def reparam(x):
                    n_ = type(x).__name__
                    if n_ != "ShapeGroup":
                        _ = x.shapely_object, x.contains_point(np.array([0.0, 0.0])), getattr(x, "vertices", None)
                    if n_ == "Rectangle":
                        x.center = np.array([x.center[0] + tr[0], x.center[1] + tr[1]])
                        x.length, x.width = x.length * 1.5 + 0.25, x.width * 0.5 + 0.125
                        x.orientation = rng.uniform(-3, 3)
                    elif n_ == "Circle":
                        x.center = np.array([x.center[0] + tr[0], x.center[1] + tr[1]])
                        x.radius = x.radius * 2.0 + 0.5
                    elif n_ == "Polygon":
                        x.vertices = np.array(x.vertices)[:-1] * 1.5 + tr
                    else:
                        for m_ in x.shapes:
                            reparam(m_)
                reparam(shp)
        except Exception as e:  # noqa
            ctx.violation("C06/%s/%s/raises-%s" % (kind, prov, type(e).__name__), repr(e)[:200], {"kind": kind})
            continue
        ctx.feature("provenance." + prov)
        d = geom.describe(shp)
        ctx.evaluation()
        ctx.feature("shape-coherence." + kind)
        ctx.fingerprint(["shape", kind, lookup._shape_wit(shp)])
        if i < 2:
            ctx.sample({"shape": lookup._shape_wit(shp)})
        # probe points: centre, around the boundary at +-1/8 and +-1e-3 relative, far
        probes = []
        parts = d[1] if kind == "ShapeGroup" else [d]
        for part in parts:
            if part[0] == "circle":
                c, r = part[1], part[2]
                for a in (0.0, 1.0, 2.5, 4.0):
                    for f in (0.0, 0.5, 0.9, 0.99, 1.01, 1.1, 1.5):
                        probes.append((c[0] + f * r * math.cos(a), c[1] + f * r * math.sin(a)))
            else:
                ring = part[1]
                cx = sum(p[0] for p in ring) / len(ring)
                cy = sum(p[1] for p in ring) / len(ring)
                probes.append((cx, cy))
                for k in range(len(ring)):
                    a, b = ring[k], ring[(k + 1) % len(ring)]
                    mx, my = (a[0] + b[0]) / 2, (a[1] + b[1]) / 2
                    for f in (0.9, 0.99, 1.01, 1.1):
                        probes.append((cx + f * (mx - cx), cy + f * (my - cy)))
                        probes.append((cx + f * (a[0] - cx), cy + f * (a[1] - cy)))
        probes.append((1e4, 1e4))
        try:
            so = None if kind == "ShapeGroup" else shp.shapely_object
        except Exception as e:  # noqa
            ctx.violation("C06/%s.shapely_object/raises-%s" % (kind, type(e).__name__), repr(e), lookup._shape_wit(shp))
            continue
        for p in probes:
            ctx.evaluation()
            truth = geom.desc_contains_point(d, p)
            if truth is None:
                ctx.skipped()
                continue
            try:
                cp = bool(shp.contains_point(np.array(p)))
            except Exception as e:  # noqa
                ctx.violation("C06/%s.contains_point/raises-%s" % (kind, type(e).__name__), repr(e), lookup._shape_wit(shp))
                break
            if cp != truth:
                ctx.violation("C06/%s.contains_point/disagrees-with-parameters" % kind,
                              "point %s: contains_point=%s, parameters say %s (%s)" % (p, cp, truth, d),
                              {"shape": lookup._shape_wit(shp), "point": p})
            if so is not None:
                # exported geometry: same set (circle: within the 64-gon band)
                if kind == "Circle":
                    dist = math.hypot(p[0] - d[1][0], p[1] - d[1][1])
                    if abs(dist - d[2]) <= geom.CIRCLE_REL_BAND * d[2] + 1e-9:
                        ctx.skipped()
                        continue
                ex = bool(so.intersects(sg.Point(p)))
                if ex != truth and kind == "Circle" and (ex == (dist < d[2] / 2) or
                                                         abs(dist - d[2] / 2) <= geom.CIRCLE_REL_BAND * d[2] + 1e-9):
                    ctx.violation("C06/Circle.shapely_object/denotes-disc-of-half-the-radius",
                                  "point %s at distance %.6g from the centre of a circle of radius %.6g: exported "
                                  "geometry contains=%s" % (p, dist, d[2], ex), {"shape": lookup._shape_wit(shp), "point": p})
                elif ex != truth:
                    ctx.violation("C06/%s.shapely_object/denotes-another-set" % kind,
                                  "point %s: exported geometry contains=%s, parameters say %s (%s)" % (p, ex, truth, d),
                                  {"shape": lookup._shape_wit(shp), "point": p})

    # ambient workload (thorough tier): the repository's own tests with the contracts installed
    if not ctx.quick and ctx.shard == 0 and ctx.only is None:
        from vf.ambient import run_ambient
        run_ambient(ctx, ['lookup'])
